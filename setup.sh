#!/bin/sh
# Builds the verifier offline and warms the Go build cache for -tags verif.
set -e
export GOFLAGS=-mod=mod GOPROXY=off GOSUMDB=off GOTOOLCHAIN=local PATH=/opt/veriftools/go1.26.8/bin:$PATH
cd /verif/govc
go build -o bin/govc .
mkdir -p /verif/out /verif/evidence
# warm the export-data cache used by go/packages
cd /repo && go build -tags verif ./pkg/... >/dev/null 2>&1 || true
echo setup done
