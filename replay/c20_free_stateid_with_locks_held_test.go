package nfsv4

// replay-obligation: sequenceState\)\.opFreeStateID#requires@call:remove:no-locks-held
// replay-package: pkg/filesystem/virtual/nfsv4
// replay-test: TestGovcReplayNFS41FreeStateIDWithLocksHeld
//
// Counterexample of the verifier: FREE_STATEID names a lock state ID whose
// lock-owner still holds a byte-range lock on the file (lockCount > 0).
// opFreeStateID hands it to nfs41LockOwnerFileState.remove(), whose
// precondition is lockCount == 0. The request must be refused with
// NFS4ERR_LOCKS_HELD and the lock must stay in place; the server must not
// panic while holding the client's lock.

import (
	"context"
	"io"
	"testing"
	"time"

	"github.com/buildbarn/bb-remote-execution/pkg/filesystem/virtual"
	"github.com/buildbarn/bb-storage/pkg/clock"
	"github.com/buildbarn/bb-storage/pkg/filesystem/path"
	"github.com/buildbarn/bb-storage/pkg/random"
	"github.com/buildbarn/go-xdr/pkg/protocols/nfsv4"
)

type govcC20bLeaf struct{ virtual.Leaf }

func (govcC20bLeaf) VirtualClose(shareAccess virtual.ShareMask) {}

type govcC20bDirectory struct{ virtual.Directory }

func (govcC20bDirectory) VirtualGetAttributes(ctx context.Context, requested virtual.AttributesMask, attributes *virtual.Attributes) {
	attributes.SetFileHandle([]byte{0x01})
}

func (govcC20bDirectory) VirtualOpenChild(ctx context.Context, name path.Component, shareAccess virtual.ShareMask, createAttributes *virtual.Attributes, existingOptions *virtual.OpenExistingOptions, requested virtual.AttributesMask, openedFileAttributes *virtual.Attributes) (virtual.Leaf, virtual.AttributesMask, virtual.ChangeInfo, virtual.Status) {
	openedFileAttributes.SetFileHandle([]byte{0x02})
	return govcC20bLeaf{}, 0, virtual.ChangeInfo{}, virtual.StatusOK
}

type govcC20bClock struct{ clock.Clock }

func (govcC20bClock) Now() time.Time { return time.Unix(1000, 0) }

func TestGovcReplayNFS41FreeStateIDWithLocksHeld(t *testing.T) {
	attrs := nfsv4.ChannelAttrs4{CaMaxrequestsize: 1 << 20, CaMaxresponsesize: 1 << 20, CaMaxresponsesizeCached: 1 << 20, CaMaxoperations: 100, CaMaxrequests: 4}
	program := NewNFS41Program(
		govcC20bDirectory{},
		NewOpenedFilesPool(func(r io.ByteReader) (virtual.DirectoryChild, virtual.Status) {
			return virtual.DirectoryChild{}, virtual.StatusErrStale
		}),
		nfsv4.ServerOwner4{SoMajorId: []byte("govc")},
		[]byte("govc-scope"),
		&attrs,
		random.NewFastSingleThreadedGenerator(),
		nfsv4.Verifier4{9, 9, 9, 9, 9, 9, 9, 9},
		govcC20bClock{},
		2*time.Minute,
		time.Minute,
		path.UNIXFormat,
		nil,
	)
	compound := func(ops ...nfsv4.NfsArgop4) *nfsv4.Compound4res {
		res, err := program.NfsV4Nfsproc4Compound(context.Background(), &nfsv4.Compound4args{Minorversion: 1, Argarray: ops})
		if err != nil {
			t.Fatal(err)
		}
		return res
	}
	res := compound(&nfsv4.NfsArgop4_OP_EXCHANGE_ID{OpexchangeId: nfsv4.ExchangeId4args{
		EiaClientowner:  nfsv4.ClientOwner4{CoVerifier: nfsv4.Verifier4{1, 2, 3, 4, 5, 6, 7, 8}, CoOwnerid: []byte("client")},
		EiaStateProtect: &nfsv4.StateProtect4A_SP4_NONE{},
	}})
	if res.Status != nfsv4.NFS4_OK {
		t.Fatalf("EXCHANGE_ID failed: %v", res.Status)
	}
	eid := res.Resarray[0].(*nfsv4.NfsResop4_OP_EXCHANGE_ID).OpexchangeId.(*nfsv4.ExchangeId4res_NFS4_OK).EirResok4
	res = compound(&nfsv4.NfsArgop4_OP_CREATE_SESSION{OpcreateSession: nfsv4.CreateSession4args{
		CsaClientid: eid.EirClientid, CsaSequence: eid.EirSequenceid, CsaForeChanAttrs: attrs,
	}})
	if res.Status != nfsv4.NFS4_OK {
		t.Fatalf("CREATE_SESSION failed: %v", res.Status)
	}
	sessionID := res.Resarray[0].(*nfsv4.NfsResop4_OP_CREATE_SESSION).OpcreateSession.(*nfsv4.CreateSession4res_NFS4_OK).CsrResok4.CsrSessionid
	seq := nfsv4.Sequenceid4(0)
	sequence := func(what string, wantStatus nfsv4.Nfsstat4, ops ...nfsv4.NfsArgop4) []nfsv4.NfsResop4 {
		seq++
		r := compound(append([]nfsv4.NfsArgop4{&nfsv4.NfsArgop4_OP_SEQUENCE{Opsequence: nfsv4.Sequence4args{SaSessionid: sessionID, SaSequenceid: seq, SaSlotid: 0}}}, ops...)...)
		if r.Status != wantStatus {
			if what == "FREE_STATEID of a lock state that still holds a lock" {
				t.Fatalf("GOVC-REPLAY-VIOLATION: %s: status %v, want %v (RFC 8881 18.38)", what, r.Status, wantStatus)
			}
			t.Fatalf("%s: status %v, want %v", what, r.Status, wantStatus)
		}
		return r.Resarray[1:]
	}
	open := func(owner string) (nfsv4.Stateid4, nfsv4.NfsFh4) {
		results := sequence("OPEN", nfsv4.NFS4_OK,
			&nfsv4.NfsArgop4_OP_PUTROOTFH{},
			&nfsv4.NfsArgop4_OP_OPEN{Opopen: nfsv4.Open4args{
				ShareAccess: nfsv4.OPEN4_SHARE_ACCESS_BOTH,
				ShareDeny:   nfsv4.OPEN4_SHARE_DENY_NONE,
				Owner:       nfsv4.OpenOwner4{Owner: []byte(owner)},
				Openhow:     &nfsv4.Openflag4_default{Opentype: nfsv4.OPEN4_NOCREATE},
				Claim:       &nfsv4.OpenClaim4_CLAIM_NULL{File: "file"},
			}},
			&nfsv4.NfsArgop4_OP_GETFH{},
		)
		return results[1].(*nfsv4.NfsResop4_OP_OPEN).Opopen.(*nfsv4.Open4res_NFS4_OK).Resok4.Stateid,
			results[2].(*nfsv4.NfsResop4_OP_GETFH).Opgetfh.(*nfsv4.Getfh4res_NFS4_OK).Resok4.Object
	}
	lockOwner := nfsv4.LockOwner4{Owner: []byte("lock-owner")}

	openStateID, fileHandle := open("open-owner-1")
	results := sequence("LOCK (new lock-owner)", nfsv4.NFS4_OK,
		&nfsv4.NfsArgop4_OP_PUTFH{Opputfh: nfsv4.Putfh4args{Object: fileHandle}},
		&nfsv4.NfsArgop4_OP_LOCK{Oplock: nfsv4.Lock4args{
			Locktype: nfsv4.WRITE_LT, Offset: 7, Length: 1,
			Locker: &nfsv4.Locker4_TRUE{OpenOwner: nfsv4.OpenToLockOwner4{OpenStateid: openStateID, LockOwner: lockOwner}},
		}},
	)
	lockStateID := results[1].(*nfsv4.NfsResop4_OP_LOCK).Oplock.(*nfsv4.Lock4res_NFS4_OK).Resok4.LockStateid

	// Freeing the state ID while the lock is held must be refused.
	func() {
		defer func() {
			if r := recover(); r != nil {
				t.Fatalf("GOVC-REPLAY-VIOLATION: FREE_STATEID of a lock state that still holds a lock made the server panic: %v", r)
			}
		}()
		seq++
		r := compound(
			&nfsv4.NfsArgop4_OP_SEQUENCE{Opsequence: nfsv4.Sequence4args{SaSessionid: sessionID, SaSequenceid: seq, SaSlotid: 0}},
			&nfsv4.NfsArgop4_OP_FREE_STATEID{OpfreeStateid: nfsv4.FreeStateid4args{FsaStateid: lockStateID}},
		)
		if len(r.Resarray) < 2 {
			t.Fatalf("FREE_STATEID: no result (status %v)", r.Status)
		}
		if st := r.Resarray[1].(*nfsv4.NfsResop4_OP_FREE_STATEID).OpfreeStateid.FsrStatus; st != nfsv4.NFS4ERR_LOCKS_HELD {
			t.Fatalf("GOVC-REPLAY-VIOLATION: FREE_STATEID of a lock state that still holds a lock: status %v, want NFS4ERR_LOCKS_HELD (RFC 8881 18.38)", st)
		}
	}()

	// The lock is still there: another owner is refused.
	sequence("LOCKT by another owner", nfsv4.NFS4ERR_DENIED,
		&nfsv4.NfsArgop4_OP_PUTFH{Opputfh: nfsv4.Putfh4args{Object: fileHandle}},
		&nfsv4.NfsArgop4_OP_LOCKT{Oplockt: nfsv4.Lockt4args{Locktype: nfsv4.WRITE_LT, Offset: 7, Length: 1, Owner: nfsv4.LockOwner4{Owner: []byte("someone-else")}}},
	)
}
