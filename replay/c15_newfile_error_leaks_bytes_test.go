package pool

// replay-obligation: quotaEnforcingFilePool\)\.NewFile#ensures@return:nothing-charged-on-error
// replay-package: pkg/filesystem/pool
// replay-test: TestGovcReplayNewFileErrorLeaksBytes
//
// Counterexample of the verifier: size > 0, the file-count and byte quota are
// both granted, and the base pool's NewFile fails. Nothing may stay charged.

import (
	"errors"
	"testing"

	"github.com/buildbarn/bb-storage/pkg/filesystem"
)

type govcFailingPool struct{}

func (govcFailingPool) NewFile(holeSource HoleSource, size uint64) (filesystem.FileReadWriter, error) {
	return nil, errors.New("base pool failure")
}

func TestGovcReplayNewFileErrorLeaksBytes(t *testing.T) {
	fp := NewQuotaEnforcingFilePool(govcFailingPool{}, 10, 1000).(*quotaEnforcingFilePool)
	if _, err := fp.NewFile(nil, 600); err == nil {
		t.Fatal("expected the base pool error")
	}
	if got := fp.filesRemaining.remaining.Load(); got != 10 {
		t.Fatalf("GOVC-REPLAY-VIOLATION: file quota leaked: %d of 10 remaining after a failed NewFile", got)
	}
	if got := fp.bytesRemaining.remaining.Load(); got != 1000 {
		t.Fatalf("GOVC-REPLAY-VIOLATION: byte quota leaked: %d of 1000 remaining after a failed NewFile", got)
	}
}
