package scheduler

// replay-obligation: worker\)\.assignNextQueuedTask#assert@call:isPreferred#1:tie-break-uses-window-of-this-level
// replay-package: pkg/scheduler
// replay-test: TestGovcReplayStickinessWindowOfSecondLevel
//
// Counterexample of the verifier: at depth k >= 1 of the invocation tree the
// tie breaker handed to isPreferred must be computed from the worker's
// stickiness starting time of level k. History (two stickiness levels, limits
// 1h and 10min):
//
//	T= 0min  worker runs a task of invocation (A, z)            starting times [0, 0]
//	T=20min  worker runs a higher-priority task of (A, y)       starting times [0, 20min]
//	T=25min  equal-priority tasks of (A, y) and (A, z) are queued and tie;
//	         (A, z) is the least recently served of the two.
//
// The level-1 window of the worker (20min + 10min) has not expired at T=25min,
// so the tie must go to (A, y), the invocation the worker last served.

import (
	"context"
	"sync"
	"testing"
	"time"

	remoteexecution "github.com/bazelbuild/remote-apis/build/bazel/remote/execution/v2"
	"github.com/buildbarn/bb-remote-execution/pkg/proto/remoteworker"
	"github.com/buildbarn/bb-remote-execution/pkg/scheduler/initialsizeclass"
	scheduler_invocation "github.com/buildbarn/bb-remote-execution/pkg/scheduler/invocation"
	"github.com/buildbarn/bb-remote-execution/pkg/scheduler/platform"
	"github.com/buildbarn/bb-storage/pkg/auth"
	"github.com/buildbarn/bb-storage/pkg/blobstore"
	"github.com/buildbarn/bb-storage/pkg/blobstore/buffer"
	"github.com/buildbarn/bb-storage/pkg/clock"
	"github.com/buildbarn/bb-storage/pkg/digest"
	"github.com/buildbarn/bb-storage/pkg/util"
	"github.com/google/uuid"

	"google.golang.org/grpc"
	"google.golang.org/protobuf/proto"
	"google.golang.org/protobuf/types/known/anypb"
	"google.golang.org/protobuf/types/known/emptypb"

	"cloud.google.com/go/longrunning/autogen/longrunningpb"
)

type govcC04Clock struct {
	lock sync.Mutex
	now  time.Time
}

func (c *govcC04Clock) Now() time.Time {
	c.lock.Lock()
	defer c.lock.Unlock()
	return c.now
}

func (c *govcC04Clock) set(t time.Time) {
	c.lock.Lock()
	defer c.lock.Unlock()
	c.now = t
}

func (c *govcC04Clock) NewContextWithTimeout(parent context.Context, timeout time.Duration) (context.Context, context.CancelFunc) {
	return context.WithCancel(parent)
}

type govcC04Timer struct{}

func (govcC04Timer) Stop() bool { return true }

func (c *govcC04Clock) NewTimer(d time.Duration) (clock.Timer, <-chan time.Time) {
	return govcC04Timer{}, make(chan time.Time)
}

type govcC04Ticker struct{}

func (govcC04Ticker) Stop() {}

func (c *govcC04Clock) NewTicker(d time.Duration) (clock.Ticker, <-chan time.Time) {
	return govcC04Ticker{}, make(chan time.Time)
}

type govcC04CAS struct {
	blobstore.BlobAccess
	action *remoteexecution.Action
}

func (cas *govcC04CAS) Get(ctx context.Context, d digest.Digest) buffer.Buffer {
	return buffer.NewProtoBufferFromProto(proto.Clone(cas.action), buffer.UserProvided)
}

type govcC04Learner struct{}

func (govcC04Learner) Succeeded(duration time.Duration, sizeClasses []uint32) (int, time.Duration, time.Duration, initialsizeclass.Learner) {
	return 0, 0, 0, nil
}
func (govcC04Learner) Failed(timedOut bool) (time.Duration, time.Duration, initialsizeclass.Learner) {
	return 0, 0, nil
}
func (govcC04Learner) Abandoned() {}

type govcC04Selector struct{}

func (govcC04Selector) Select(sizeClasses []uint32) (int, time.Duration, time.Duration, initialsizeclass.Learner) {
	return 0, time.Minute, time.Hour, govcC04Learner{}
}
func (govcC04Selector) Abandoned() {}

type govcC04KeysType struct{}

type govcC04Router struct{ platformKey platform.Key }

func (r *govcC04Router) RouteAction(ctx context.Context, digestFunction digest.Function, action *remoteexecution.Action, requestMetadata *remoteexecution.RequestMetadata) (*remoteexecution.Action, platform.Key, []scheduler_invocation.Key, initialsizeclass.Selector, error) {
	var keys []scheduler_invocation.Key
	names, _ := ctx.Value(govcC04KeysType{}).([]string)
	for _, name := range names {
		id, err := anypb.New(&remoteexecution.RequestMetadata{ToolInvocationId: name})
		if err != nil {
			return nil, platform.Key{}, nil, nil, err
		}
		key, err := scheduler_invocation.NewKey(id)
		if err != nil {
			return nil, platform.Key{}, nil, nil, err
		}
		keys = append(keys, key)
	}
	return action, r.platformKey, keys, govcC04Selector{}, nil
}

type govcC04Stream struct {
	grpc.ServerStream
	ctx      context.Context
	messages chan *longrunningpb.Operation
}

func (s *govcC04Stream) Context() context.Context { return s.ctx }
func (s *govcC04Stream) Send(op *longrunningpb.Operation) error {
	select {
	case s.messages <- op:
	default:
	}
	return nil
}

var govcC04Platform = &remoteexecution.Platform{
	Properties: []*remoteexecution.Platform_Property{{Name: "os", Value: "linux"}},
}

func govcC04Digest(n byte) *remoteexecution.Digest {
	hash := []byte("e3b0c44298fc1c149afbf4c8996fb92427ae41e4649b934ca495991b7852b85")
	return &remoteexecution.Digest{Hash: string(hash) + string([]byte{'0' + n}), SizeBytes: 123}
}

func TestGovcReplayStickinessWindowOfSecondLevel(t *testing.T) {
	start := time.Unix(100000, 0)
	clk := &govcC04Clock{now: start}
	router := &govcC04Router{platformKey: platform.MustNewKey("main", govcC04Platform)}
	cas := &govcC04CAS{action: &remoteexecution.Action{
		CommandDigest: &remoteexecution.Digest{Hash: "0000000000000000000000000000000000000000000000000000000000000001", SizeBytes: 456},
		Platform:      govcC04Platform,
		DoNotCache:    true,
	}}
	allowAll := auth.NewStaticAuthorizer(func(digest.InstanceName) bool { return true })
	bq := NewInMemoryBuildQueue(cas, clk, uuid.NewRandom, &InMemoryBuildQueueConfiguration{
		ExecutionUpdateInterval:              time.Hour,
		OperationWithNoWaitersTimeout:        24 * time.Hour,
		PlatformQueueWithNoWorkersTimeout:    24 * time.Hour,
		BusyWorkerSynchronizationInterval:    10 * time.Second,
		GetIdleWorkerSynchronizationInterval: func() time.Duration { return time.Minute },
		WorkerTaskRetryCount:                 9,
		WorkerWithNoSynchronizationsTimeout:  24 * time.Hour,
	}, 10000, router, allowAll, allowAll, allowAll, allowAll)
	// Two levels of worker invocation stickiness: 1 hour and 10 minutes.
	if err := bq.RegisterPredeclaredPlatformQueue(util.Must(digest.NewInstanceName("main")), govcC04Platform, []time.Duration{time.Hour, 10 * time.Minute}, 0, 0, []uint32{0}); err != nil {
		t.Fatal(err)
	}

	ctx, cancel := context.WithCancel(context.Background())
	defer cancel()
	execute := func(actionDigest *remoteexecution.Digest, priority int32, keys ...string) {
		stream := &govcC04Stream{ctx: context.WithValue(ctx, govcC04KeysType{}, keys), messages: make(chan *longrunningpb.Operation, 100)}
		go bq.Execute(&remoteexecution.ExecuteRequest{InstanceName: "main", ActionDigest: actionDigest, ExecutionPolicy: &remoteexecution.ExecutionPolicy{Priority: priority}}, stream)
		// Wait until the operation has been queued.
		select {
		case <-stream.messages:
		case <-time.After(10 * time.Second):
			t.Fatal("Execute() did not report the operation as queued")
		}
	}
	workerID := map[string]string{"hostname": "worker"}
	synchronize := func(state *remoteworker.CurrentState) *remoteexecution.Digest {
		sctx, scancel := context.WithTimeout(context.Background(), 10*time.Second)
		defer scancel()
		response, err := bq.Synchronize(sctx, &remoteworker.SynchronizeRequest{
			WorkerId:           workerID,
			InstanceNamePrefix: "main",
			Platform:           govcC04Platform,
			SizeClass:          0,
			CurrentState:       state,
		})
		if err != nil {
			t.Fatalf("Synchronize failed: %s", err)
		}
		executing, ok := response.GetDesiredState().GetWorkerState().(*remoteworker.DesiredState_Executing_)
		if !ok {
			t.Fatalf("worker was not instructed to execute a task: %v", response)
		}
		return executing.Executing.ActionDigest
	}
	idle := &remoteworker.CurrentState{WorkerState: &remoteworker.CurrentState_Idle{Idle: &emptypb.Empty{}}}
	completed := func(d *remoteexecution.Digest) *remoteworker.CurrentState {
		return &remoteworker.CurrentState{WorkerState: &remoteworker.CurrentState_Executing_{Executing: &remoteworker.CurrentState_Executing{
			ActionDigest:   d,
			ExecutionState: &remoteworker.CurrentState_Executing_Completed{Completed: &remoteexecution.ExecuteResponse{Result: &remoteexecution.ActionResult{}}},
		}}}
	}

	// T=0: the worker runs a task of invocation (A, z).
	execute(govcC04Digest(1), 0, "A", "z")
	d := synchronize(idle)
	if !proto.Equal(d, govcC04Digest(1)) {
		t.Fatalf("unexpected first task %v", d)
	}

	// T=20min: another task of (A, z) is queued, and a task of (A, y) with a
	// higher priority, which the worker therefore runs next.
	clk.set(start.Add(20 * time.Minute))
	execute(govcC04Digest(4), 0, "A", "z")
	execute(govcC04Digest(2), -1, "A", "y")
	d = synchronize(completed(govcC04Digest(1)))
	if !proto.Equal(d, govcC04Digest(2)) {
		t.Fatalf("unexpected second task %v", d)
	}

	// T=25min: a task of (A, y) with the same priority as the queued task of
	// (A, z). They tie on executing workers and priority; (A, z) was served
	// less recently.
	clk.set(start.Add(25 * time.Minute))
	execute(govcC04Digest(3), 0, "A", "y")
	d = synchronize(completed(govcC04Digest(2)))
	if proto.Equal(d, govcC04Digest(4)) {
		t.Fatalf("GOVC-REPLAY-VIOLATION: within the worker's 10 minute level-1 stickiness window (started at T=20min, now T=25min) the tie between (A, y) and (A, z) went to (A, z); the window of level 0 (started at T=0) was used for level 1")
	}
	if !proto.Equal(d, govcC04Digest(3)) {
		t.Fatalf("unexpected third task %v", d)
	}
}
