package nfsv4

// replay-obligation: nfs41Program\)\.opSequence#assert@recv:blocked-duplicate-is-registered
// replay-package: pkg/filesystem/virtual/nfsv4
// replay-test: TestGovcReplayInFlightDuplicateIsRegistered
//
// Counterexample of the verifier: a SEQUENCE request arrives for a slot whose
// current sequence is still being processed (currentSequenceWaiters != nil).
// The duplicate blocks on a fresh channel; that channel must be among the
// slot's registered waiters, otherwise the original never wakes it up.

import (
	"context"
	"encoding/binary"
	"io"
	"testing"
	"time"

	"github.com/buildbarn/bb-remote-execution/pkg/filesystem/virtual"
	"github.com/buildbarn/bb-storage/pkg/clock"
	"github.com/buildbarn/bb-storage/pkg/filesystem/path"
	"github.com/buildbarn/bb-storage/pkg/random"
	"github.com/buildbarn/go-xdr/pkg/protocols/nfsv4"
	"github.com/buildbarn/go-xdr/pkg/protocols/rpcv2"
)

type govcReplayClock struct{ clock.Clock }

func (govcReplayClock) Now() time.Time { return time.Unix(1000, 0) }

type govcReplayRNG struct {
	random.SingleThreadedGenerator
	counter uint64
}

func (r *govcReplayRNG) Uint64() uint64 { r.counter++; return 0x1000 + r.counter }
func (r *govcReplayRNG) Uint32() uint32 { r.counter++; return uint32(0x2000 + r.counter) }
func (r *govcReplayRNG) Read(p []byte) (int, error) {
	r.counter++
	for i := range p {
		p[i] = 0
	}
	var b [8]byte
	binary.LittleEndian.PutUint64(b[:], r.counter)
	copy(p, b[:])
	return len(p), nil
}

type govcReplayDirectory struct{ virtual.Directory }

func (govcReplayDirectory) VirtualGetAttributes(ctx context.Context, requested virtual.AttributesMask, attributes *virtual.Attributes) {
	attributes.SetFileHandle([]byte{0x01})
}

func TestGovcReplayInFlightDuplicateIsRegistered(t *testing.T) {
	handleResolver := func(r io.ByteReader) (virtual.DirectoryChild, virtual.Status) {
		return virtual.DirectoryChild{}, virtual.StatusErrStale
	}
	attrs := nfsv4.ChannelAttrs4{CaMaxrequestsize: 1 << 20, CaMaxresponsesize: 1 << 20, CaMaxresponsesizeCached: 1 << 16, CaMaxoperations: 100, CaMaxrequests: 4}
	program := NewNFS41Program(
		govcReplayDirectory{},
		NewOpenedFilesPool(handleResolver),
		nfsv4.ServerOwner4{SoMinorId: 1, SoMajorId: []byte("major")},
		[]byte("scope"),
		&attrs,
		&govcReplayRNG{},
		nfsv4.Verifier4{1, 2, 3, 4, 5, 6, 7, 8},
		govcReplayClock{},
		2*time.Minute,
		time.Minute,
		path.UNIXFormat,
		[]nfsv4.Secinfo4{&nfsv4.Secinfo4_default{Flavor: rpcv2.AUTH_NONE}},
	)
	compound := func(ops ...nfsv4.NfsArgop4) *nfsv4.Compound4res {
		res, err := program.NfsV4Nfsproc4Compound(context.Background(), &nfsv4.Compound4args{Minorversion: 1, Argarray: ops})
		if err != nil {
			t.Fatal(err)
		}
		return res
	}
	res := compound(&nfsv4.NfsArgop4_OP_EXCHANGE_ID{OpexchangeId: nfsv4.ExchangeId4args{
		EiaClientowner:  nfsv4.ClientOwner4{CoVerifier: nfsv4.Verifier4{9, 9, 9, 9, 9, 9, 9, 9}, CoOwnerid: []byte("client")},
		EiaStateProtect: &nfsv4.StateProtect4A_SP4_NONE{},
	}})
	if res.Status != nfsv4.NFS4_OK {
		t.Fatalf("EXCHANGE_ID failed: %v", res.Status)
	}
	eid := res.Resarray[0].(*nfsv4.NfsResop4_OP_EXCHANGE_ID).OpexchangeId.(*nfsv4.ExchangeId4res_NFS4_OK).EirResok4
	res = compound(&nfsv4.NfsArgop4_OP_CREATE_SESSION{OpcreateSession: nfsv4.CreateSession4args{
		CsaClientid: eid.EirClientid, CsaSequence: eid.EirSequenceid, CsaForeChanAttrs: attrs,
	}})
	if res.Status != nfsv4.NFS4_OK {
		t.Fatalf("CREATE_SESSION failed: %v", res.Status)
	}
	sessionID := res.Resarray[0].(*nfsv4.NfsResop4_OP_CREATE_SESSION).OpcreateSession.(*nfsv4.CreateSession4res_NFS4_OK).CsrResok4.CsrSessionid

	p := program.(*nfs41Program)
	p.enter()
	session := p.sessionsBySessionID[sessionID]
	slot := &session.slots[0]
	// The original request (slot 0, next sequence ID) is in flight.
	slot.currentSequenceWaiters = make([]chan<- compoundResult, 0)
	nextSeq := slot.lastSequenceID + 1
	p.leave()

	// The duplicate arrives while the original is being processed.
	done := make(chan compoundResult, 1)
	go func() {
		done <- p.opSequence(context.Background(), &nfsv4.Sequence4args{SaSessionid: sessionID, SaSequenceid: nextSeq, SaSlotid: 0}, nil)
	}()
	// Wait until the duplicate has released the program lock again.
	deadline := time.Now().Add(2 * time.Second)
	for {
		p.enter()
		registered := len(slot.currentSequenceWaiters)
		p.leave()
		if registered > 0 || time.Now().After(deadline) {
			break
		}
		time.Sleep(5 * time.Millisecond)
	}

	// The original completes exactly like opSequence does: it stores its
	// result and sends it to every registered waiter.
	original := newSequenceCompoundResultForError(nfsv4.NFS4ERR_DELAY)
	p.enter()
	waiters := slot.currentSequenceWaiters
	slot.lastSequenceID = nextSeq
	slot.lastResult = original
	slot.currentSequenceWaiters = nil
	p.leave()
	for _, w := range waiters {
		w <- original
	}

	select {
	case got := <-done:
		if got.status != original.status {
			t.Fatalf("GOVC-REPLAY-VIOLATION: duplicate completed with status %v, want the original's %v", got.status, original.status)
		}
	case <-time.After(3 * time.Second):
		t.Fatalf("GOVC-REPLAY-VIOLATION: duplicate SEQUENCE is blocked forever: it was not registered with the slot (%d registered waiters)", len(waiters))
	}
}
