package blobstore

// replay-obligation: blobAccessMutableProtoHandle\[T, TProto\]\)\.Release#ensures@return:dirty-release-makes-a-newer-version
// replay-package: pkg/blobstore
// replay-test: TestGovcReplayDirtyReleaseDuringInFlightWrite
//
// Counterexample of the verifier: Release(isDirty=true) on a handle whose
// currentVersion is already writtenVersion+1, i.e. a handle that is dirty and
// whose write-back is in flight. The release must produce a newer version, so
// that completion of the in-flight write does not make the handle look clean:
//
//  1. statistics u1 are recorded for action A (version 1) and queued;
//  2. Get(B) dequeues A and starts writing version 1; the write blocks;
//  3. meanwhile A is fetched again, statistics u2 are recorded and released;
//  4. the write of step 2 completes.
//
// Afterwards u2 must not be lost: a new Get(A) must still see it.

import (
	"context"
	"sync"
	"testing"
	"time"

	remoteexecution "github.com/bazelbuild/remote-apis/build/bazel/remote/execution/v2"
	"github.com/buildbarn/bb-storage/pkg/blobstore"
	"github.com/buildbarn/bb-storage/pkg/blobstore/buffer"
	"github.com/buildbarn/bb-storage/pkg/digest"
	"github.com/buildbarn/bb-storage/pkg/proto/iscc"

	"google.golang.org/grpc/codes"
	"google.golang.org/grpc/status"
	"google.golang.org/protobuf/proto"
	"google.golang.org/protobuf/types/known/timestamppb"
)

type govcC07BlobAccess struct {
	blobstore.BlobAccess

	lock    sync.Mutex
	stored  map[digest.Digest]*iscc.PreviousExecutionStats
	started chan struct{} // signalled when a Put has started
	unblock chan struct{} // a Put proceeds after receiving from it
	block   bool
}

func (ba *govcC07BlobAccess) Get(ctx context.Context, d digest.Digest) buffer.Buffer {
	ba.lock.Lock()
	defer ba.lock.Unlock()
	if m, ok := ba.stored[d]; ok {
		return buffer.NewProtoBufferFromProto(proto.Clone(m), buffer.UserProvided)
	}
	return buffer.NewBufferFromError(status.Error(codes.NotFound, "Blob does not exist"))
}

func (ba *govcC07BlobAccess) Put(ctx context.Context, d digest.Digest, b buffer.Buffer) error {
	m, err := b.ToProto(&iscc.PreviousExecutionStats{}, 1<<20)
	if err != nil {
		return err
	}
	ba.lock.Lock()
	block := ba.block
	ba.lock.Unlock()
	if block {
		ba.started <- struct{}{}
		<-ba.unblock
	}
	ba.lock.Lock()
	defer ba.lock.Unlock()
	ba.stored[d] = m.(*iscc.PreviousExecutionStats)
	return nil
}

func TestGovcReplayDirtyReleaseDuringInFlightWrite(t *testing.T) {
	ctx := context.Background()
	ba := &govcC07BlobAccess{stored: map[digest.Digest]*iscc.PreviousExecutionStats{}, started: make(chan struct{}, 10), unblock: make(chan struct{}, 10)}
	store := NewBlobAccessMutableProtoStore[iscc.PreviousExecutionStats](ba, 10000)
	digestA := digest.MustNewDigest("hello", remoteexecution.DigestFunction_MD5, "a8ade48a0fb410f9c315723ef0aca3e3", 123)
	digestB := digest.MustNewDigest("hello", remoteexecution.DigestFunction_MD5, "ad328f7d3be9f12b93ce14e8937a083e", 456)

	// 1. Record u1 for A.
	hA, err := store.Get(ctx, digestA)
	if err != nil {
		t.Fatal(err)
	}
	hA.GetMutableProto().LastSeenFailure = &timestamppb.Timestamp{Seconds: 1}
	hA.Release(true)

	// 2. Get(B) starts writing A (version 1); the write blocks.
	ba.lock.Lock()
	ba.block = true
	ba.lock.Unlock()
	getBDone := make(chan error, 1)
	go func() {
		hB, err := store.Get(ctx, digestB)
		if err == nil {
			hB.Release(false)
		}
		getBDone <- err
	}()
	select {
	case <-ba.started:
	case <-time.After(10 * time.Second):
		t.Fatal("the write-back of A did not start")
	}
	ba.lock.Lock()
	ba.block = false
	ba.lock.Unlock()

	// 3. Meanwhile, record u2 for A and release it dirty.
	hA2, err := store.Get(ctx, digestA)
	if err != nil {
		t.Fatal(err)
	}
	hA2.GetMutableProto().LastSeenFailure = &timestamppb.Timestamp{Seconds: 2}
	hA2.Release(true)

	// 4. The in-flight write of version 1 completes.
	ba.unblock <- struct{}{}
	select {
	case err := <-getBDone:
		if err != nil {
			t.Fatal(err)
		}
	case <-time.After(10 * time.Second):
		t.Fatal("Get(B) did not return")
	}

	// The later update u2 must still be there.
	hA3, err := store.Get(ctx, digestA)
	if err != nil {
		t.Fatal(err)
	}
	if got := hA3.GetMutableProto().LastSeenFailure.GetSeconds(); got != 2 {
		t.Fatalf("GOVC-REPLAY-VIOLATION: the update recorded while the write-back of the previous version was in flight was dropped: Get(A) returns statistics with LastSeenFailure=%d, want 2 (the dirty release re-used the version number of the write in flight, so its completion discarded the handle)", got)
	}
}
