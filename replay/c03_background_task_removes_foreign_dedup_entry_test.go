package scheduler

// replay-obligation: task\)\.complete#ensures@return:entries-of-other-tasks-untouched
// replay-package: pkg/scheduler
// replay-test: TestGovcReplayBackgroundTaskKeepsForeignDedupEntry
//
// Counterexample of the verifier: a task that is not the one registered in
// the in-flight deduplication map under its action digest completes, and the
// entry of the other task disappears. History:
//
//  1. client 1 executes cacheable action D; it succeeds and the size-class
//     learner asks for a background learning run (same digest, never
//     registered in the map);
//  2. client 2 executes D: a fresh task T2 is created and registered;
//  3. the background run completes;
//  4. client 3 executes D while T2 is executing: it must attach to T2.

import (
	"context"
	"sync"
	"testing"
	"time"

	remoteexecution "github.com/bazelbuild/remote-apis/build/bazel/remote/execution/v2"
	"github.com/buildbarn/bb-remote-execution/pkg/proto/remoteworker"
	"github.com/buildbarn/bb-remote-execution/pkg/scheduler/initialsizeclass"
	scheduler_invocation "github.com/buildbarn/bb-remote-execution/pkg/scheduler/invocation"
	"github.com/buildbarn/bb-remote-execution/pkg/scheduler/platform"
	"github.com/buildbarn/bb-storage/pkg/auth"
	"github.com/buildbarn/bb-storage/pkg/blobstore"
	"github.com/buildbarn/bb-storage/pkg/blobstore/buffer"
	"github.com/buildbarn/bb-storage/pkg/clock"
	"github.com/buildbarn/bb-storage/pkg/digest"
	"github.com/buildbarn/bb-storage/pkg/util"
	"github.com/google/uuid"

	"google.golang.org/grpc"
	"google.golang.org/protobuf/proto"
	"google.golang.org/protobuf/types/known/emptypb"

	"cloud.google.com/go/longrunning/autogen/longrunningpb"
)

type govcC03Clock struct {
	lock sync.Mutex
	now  time.Time
}

func (c *govcC03Clock) Now() time.Time {
	c.lock.Lock()
	defer c.lock.Unlock()
	c.now = c.now.Add(time.Second)
	return c.now
}

func (c *govcC03Clock) NewContextWithTimeout(parent context.Context, timeout time.Duration) (context.Context, context.CancelFunc) {
	return context.WithCancel(parent)
}

type govcC03Timer struct{}

func (govcC03Timer) Stop() bool { return true }

func (c *govcC03Clock) NewTimer(d time.Duration) (clock.Timer, <-chan time.Time) {
	return govcC03Timer{}, make(chan time.Time)
}

type govcC03Ticker struct{}

func (govcC03Ticker) Stop() {}

func (c *govcC03Clock) NewTicker(d time.Duration) (clock.Ticker, <-chan time.Time) {
	return govcC03Ticker{}, make(chan time.Time)
}

type govcC03CAS struct {
	blobstore.BlobAccess
	action *remoteexecution.Action
}

func (cas *govcC03CAS) Get(ctx context.Context, d digest.Digest) buffer.Buffer {
	return buffer.NewProtoBufferFromProto(proto.Clone(cas.action), buffer.UserProvided)
}

// The learner of the first foreground task asks for one background run.
type govcC03Learner struct{ wantBackground bool }

func (l govcC03Learner) Succeeded(duration time.Duration, sizeClasses []uint32) (int, time.Duration, time.Duration, initialsizeclass.Learner) {
	if l.wantBackground {
		return 0, time.Minute, time.Hour, govcC03Learner{}
	}
	return 0, 0, 0, nil
}
func (govcC03Learner) Failed(timedOut bool) (time.Duration, time.Duration, initialsizeclass.Learner) {
	return 0, 0, nil
}
func (govcC03Learner) Abandoned() {}

type govcC03Selector struct{ router *govcC03Router }

func (s govcC03Selector) Select(sizeClasses []uint32) (int, time.Duration, time.Duration, initialsizeclass.Learner) {
	s.router.lock.Lock()
	defer s.router.lock.Unlock()
	s.router.selected++
	return 0, time.Minute, time.Hour, govcC03Learner{wantBackground: s.router.selected == 1}
}
func (govcC03Selector) Abandoned() {}

type govcC03Router struct {
	platformKey platform.Key
	lock        sync.Mutex
	selected    int
}

func (r *govcC03Router) RouteAction(ctx context.Context, digestFunction digest.Function, action *remoteexecution.Action, requestMetadata *remoteexecution.RequestMetadata) (*remoteexecution.Action, platform.Key, []scheduler_invocation.Key, initialsizeclass.Selector, error) {
	return action, r.platformKey, nil, govcC03Selector{router: r}, nil
}

type govcC03Stream struct {
	grpc.ServerStream
	ctx      context.Context
	messages chan *longrunningpb.Operation
}

func (s *govcC03Stream) Context() context.Context { return s.ctx }
func (s *govcC03Stream) Send(op *longrunningpb.Operation) error {
	select {
	case s.messages <- op:
	default:
	}
	return nil
}

var govcC03Platform = &remoteexecution.Platform{
	Properties: []*remoteexecution.Platform_Property{{Name: "os", Value: "linux"}},
}

var govcC03ActionDigest = &remoteexecution.Digest{
	Hash:      "e3b0c44298fc1c149afbf4c8996fb92427ae41e4649b934ca495991b7852b855",
	SizeBytes: 123,
}

func TestGovcReplayBackgroundTaskKeepsForeignDedupEntry(t *testing.T) {
	clk := &govcC03Clock{now: time.Unix(100000, 0)}
	router := &govcC03Router{platformKey: platform.MustNewKey("main", govcC03Platform)}
	cas := &govcC03CAS{action: &remoteexecution.Action{
		CommandDigest: &remoteexecution.Digest{Hash: "0000000000000000000000000000000000000000000000000000000000000001", SizeBytes: 456},
		Platform:      govcC03Platform,
	}}
	allowAll := auth.NewStaticAuthorizer(func(digest.InstanceName) bool { return true })
	bq := NewInMemoryBuildQueue(cas, clk, uuid.NewRandom, &InMemoryBuildQueueConfiguration{
		ExecutionUpdateInterval:              time.Hour,
		OperationWithNoWaitersTimeout:        24 * time.Hour,
		PlatformQueueWithNoWorkersTimeout:    24 * time.Hour,
		BusyWorkerSynchronizationInterval:    10 * time.Second,
		GetIdleWorkerSynchronizationInterval: func() time.Duration { return time.Minute },
		WorkerTaskRetryCount:                 9,
		WorkerWithNoSynchronizationsTimeout:  24 * time.Hour,
	}, 10000, router, allowAll, allowAll, allowAll, allowAll)
	// Background learning is enabled: up to 10 queued background operations.
	if err := bq.RegisterPredeclaredPlatformQueue(util.Must(digest.NewInstanceName("main")), govcC03Platform, nil, 10, 100, []uint32{0}); err != nil {
		t.Fatal(err)
	}

	ctx, cancel := context.WithCancel(context.Background())
	defer cancel()
	execute := func() {
		stream := &govcC03Stream{ctx: ctx, messages: make(chan *longrunningpb.Operation, 100)}
		go bq.Execute(&remoteexecution.ExecuteRequest{InstanceName: "main", ActionDigest: govcC03ActionDigest}, stream)
		select {
		case <-stream.messages:
		case <-time.After(10 * time.Second):
			t.Fatal("Execute() did not report the operation")
		}
	}
	workerID := map[string]string{"hostname": "worker"}
	synchronize := func(state *remoteworker.CurrentState) {
		sctx, scancel := context.WithTimeout(context.Background(), 10*time.Second)
		defer scancel()
		response, err := bq.Synchronize(sctx, &remoteworker.SynchronizeRequest{
			WorkerId: workerID, InstanceNamePrefix: "main", Platform: govcC03Platform, SizeClass: 0, CurrentState: state,
		})
		if err != nil {
			t.Fatalf("Synchronize failed: %s", err)
		}
		if _, ok := response.GetDesiredState().GetWorkerState().(*remoteworker.DesiredState_Executing_); !ok {
			t.Fatalf("worker was not instructed to execute a task: %v", response)
		}
	}
	idle := &remoteworker.CurrentState{WorkerState: &remoteworker.CurrentState_Idle{Idle: &emptypb.Empty{}}}
	completed := &remoteworker.CurrentState{WorkerState: &remoteworker.CurrentState_Executing_{Executing: &remoteworker.CurrentState_Executing{
		ActionDigest:   govcC03ActionDigest,
		ExecutionState: &remoteworker.CurrentState_Executing_Completed{Completed: &remoteexecution.ExecuteResponse{Result: &remoteexecution.ActionResult{}}},
	}}}
	inFlight := func() (int, int) {
		bq.lock.Lock()
		defer bq.lock.Unlock()
		tasks := map[*task]struct{}{}
		for _, o := range bq.operationsNameMap {
			if o.task.executeResponse == nil && !o.task.desiredState.Action.GetDoNotCache() {
				tasks[o.task] = struct{}{}
			}
		}
		return len(tasks), len(bq.inFlightDeduplicationMap)
	}

	// 1. Client 1 executes D; the worker runs it to successful completion.
	// The learner asks for a background learning run, which the worker picks
	// up immediately.
	execute()
	synchronize(idle)
	synchronize(completed) // completes T1, starts the background task

	// 2. Client 2 executes D: fresh task T2, registered in the map.
	execute()
	if tasks, entries := inFlight(); tasks != 1 || entries != 1 {
		t.Fatalf("setup: expected one cacheable task in flight and one map entry, got %d and %d", tasks, entries)
	}

	// 3. The background run completes; the worker starts T2.
	synchronize(completed)
	if _, entries := inFlight(); entries != 1 {
		t.Fatalf("GOVC-REPLAY-VIOLATION: completion of the background learning task (never registered in the in-flight deduplication map) removed the entry of the foreground task T2 that is still in flight (%d entries left)", entries)
	}

	// 4. Client 3 executes D while T2 is executing: it must attach to T2.
	execute()
	if tasks, _ := inFlight(); tasks != 1 {
		t.Fatalf("GOVC-REPLAY-VIOLATION: %d tasks are in flight for the same cacheable action digest; the third request did not attach to the executing task", tasks)
	}
}
