package virtual

// replay-obligation: CreateAndEnterPrepopulatedDirectory#lockbalance@return
// replay-package: pkg/filesystem/virtual
// replay-test: TestGovcReplayCreateAndEnterDeletedLeaksLock
//
// Replays the path the verifier reports for lockbalance@return of
// CreateAndEnterPrepopulatedDirectory: the directory has been deleted and the
// name is not present. After the call returns (ENOENT) the directory lock must
// be free again.

import (
	"syscall"
	"testing"

	"github.com/buildbarn/bb-storage/pkg/filesystem/path"
)

func TestGovcReplayCreateAndEnterDeletedLeaksLock(t *testing.T) {
	d := &inMemoryPrepopulatedDirectory{
		subtree: &inMemorySubtree{
			filesystem: &inMemoryFilesystem{normalizer: caseSensitiveComponentNormalizer{}},
		},
	}
	d.contents.initialize()
	d.contents.isDeleted = true
	_, err := d.CreateAndEnterPrepopulatedDirectory(path.MustNewComponent("x"))
	if err != syscall.ENOENT {
		t.Fatalf("expected ENOENT on a deleted directory, got %v", err)
	}
	if !d.lock.TryLock() {
		t.Fatal("GOVC-REPLAY-VIOLATION: directory lock is still held after CreateAndEnterPrepopulatedDirectory returned ENOENT")
	}
	d.lock.Unlock()
}
