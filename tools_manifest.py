#!/usr/bin/env python3
# Regenerates MANIFEST.json from props/*.json and the table below.
import json, glob, os, subprocess
props=[json.loads(l) for l in open('/verif/properties.jsonl')]
claimed={}
for f in sorted(glob.glob('/verif/props/C*.json')):
    id=os.path.basename(f)[:-5]
    claimed[id]=json.load(open(f))
texts=json.load(open('/verif/props/levels.json'))
hooks=subprocess.run(['git','-C','/repo','log','--format=%h %s'],capture_output=True,text=True).stdout.strip().split('\n')
hook_commits=[l.split()[0] for l in hooks if l.split(' ',1)[1].startswith('verif:')]
checks=[]
na=[]
for p in props:
    id=p['id']
    if id in claimed and id in texts and texts[id].get('claimed',True):
        t=texts[id]
        checks.append({"property_id":id,
          "quick_cmd":"./govc/bin/govc check %s --tier quick"%id,
          "thorough_cmd":"./govc/bin/govc check %s --tier thorough"%id,
          "evidence_file":"/verif/evidence/%s.json"%id,
          "replay_cmd_template":"cat {path}",
          "engine":"govc",
          "level_claimed":{"category":t.get("category","proof"),"text":t["text"],"design_ref":"DESIGN.md section 5, "+id},
          "level_note":t["note"],
          "technique":t.get("technique","contract-based deductive verification: WP-style VCs generated from go/ssa of the real functions against //@ contracts, discharged by z3/cvc5")})
    else:
        reason=texts.get(id,{}).get('na_reason',"contracts specified in DESIGN.md section 5 but not yet discharged by the engine; not claimed rather than claimed with an empty check")
        na.append({"property_id":id,"reason":reason})
m={"version":1,
 "setup_cmd":"cd /verif && ./setup.sh",
 "hooks":{"guard":"verif","enable":"-tags verif (adds comment-only contract files zz_contracts_verif.go; compiled code is unchanged)",
          "baseline_off_cmd":"cd /repo && PATH=/opt/veriftools/go1.26.8/bin:$PATH GOFLAGS=-mod=mod GOPROXY=off GOSUMDB=off GOTOOLCHAIN=local go test -vet=off -count=1 ./...",
          "source_commits":hook_commits,"add_only":True},
 "engines":[{"name":"govc","path":"/verif/govc","serves_properties":[c["property_id"] for c in checks],
             "kind_free_text":"contract-based deductive verifier for Go written for this task: symbolic execution with state merging over go/ssa (naive form) of the real functions in /repo, contracts in //@ comment files (build tag verif) and /verif/stubs/*.spec, loops cut at invariants, calls replaced by contracts, one SMT query per obligation raced on z3 5.1 / cvc5 1.0 / z3 4.8; counterexamples replayed on the real code with go test -overlay"}],
 "checks":checks,
 "not_applicable":na,
 "notes":"All checks rebuild SSA from /repo's working tree on every run. known_findings.txt lists repaired defects (fixed:) and recorded findings. Canaries under /verif/canaries are run by the thorough tier and by `govc selftest`."}
json.dump(m,open('/verif/MANIFEST.json','w'),indent=1)
print("claimed:",[c["property_id"] for c in checks])
