#!/bin/bash
# try_all_seeds.sh: apply every confirmed seeded change in turn, run the quick checks of all claimed
# properties that load the touched package, record which obligations fail. Writes seeded/RESULTS.txt.
cd /verif
out=seeded/RESULTS.txt; : > $out
claimed=$(python3 -c "import json;print(' '.join(sorted(json.load(open('/verif/props/levels.json')).keys())))")
for d in $(ls -d seeded/C*-* | sort -V); do
  id=$(basename $d)
  res=$(tools/try_seed.sh $id $claimed 2>&1)
  verdict=$(echo "$res" | tail -1)
  obl=$(echo "$res" | grep '^VIOLATION' | sed -E 's/.*replay=[^ ]*\/([^/ ]*)\.json.*/\1/' | head -3 | tr '\n' ' ')
  echo "$verdict | $obl" | tee -a $out
done
