#!/bin/bash
# confirm_seed.sh <seed dir with patch.diff, zz_seed_demo_test.go, meta.json> <scratch worktree>
# Confirms: clean tree -> suite passes, demo PASSES; with patch -> builds, suite passes, demo FAILS.
set -u
export GOFLAGS=-mod=mod GOPROXY=off GOSUMDB=off GOTOOLCHAIN=local PATH=/opt/veriftools/go1.26.8/bin:$PATH
D=$1; WT=$2
PKG=$(python3 -c "import json;print(json.load(open('$D/meta.json'))['demo_package'])")
PKG=${PKG#./}
cd $WT && git checkout -q -- . && git clean -fdq
mkov() { python3 - "$WT" "$PKG" "$D" "/tmp/seedout/confirm-overlay-$$.json" <<'PY'
import sys,os,json
wt,pkg,d,ovf=sys.argv[1:5]
rep={}
for f in os.listdir(os.path.join(wt,pkg)):
    if f.endswith('_test.go'): rep[os.path.join(wt,pkg,f)]=""
rep[os.path.join(wt,pkg,'zz_seed_demo_test.go')]=os.path.join(d,'zz_seed_demo_test.go')
json.dump({"Replace":rep},open(ovf,'w'))
PY
}
suite() { go test -vet=off -count=1 ./pkg/filesystem/access/... ./pkg/scheduler/invocation/... ./pkg/scheduler/platform/... >/dev/null 2>&1; }
demo() { mkov; go test -overlay /tmp/seedout/confirm-overlay-$$.json -vet=off -count=1 -timeout 120s -run 'TestSeedDemo' ./$PKG > /tmp/seedout/confirm-demo-$$.log 2>&1; }
res=""
suite && res="$res clean-suite=pass" || res="$res clean-suite=FAIL"
demo && res="$res clean-demo=pass" || res="$res clean-demo=FAIL"
git apply $D/patch.diff || { echo "patch does not apply"; exit 1; }
go build ./pkg/... >/dev/null 2>&1 && res="$res mut-build=ok" || res="$res mut-build=FAIL"
suite && res="$res mut-suite=pass" || res="$res mut-suite=FAIL"
demo && res="$res mut-demo=pass" || res="$res mut-demo=FAIL"
tail -5 /tmp/seedout/confirm-demo-$$.log | cut -c1-200
git checkout -q -- . && git clean -fdq
echo "RESULT $res"
case "$res" in *"clean-suite=pass clean-demo=pass mut-build=ok mut-suite=pass mut-demo=FAIL"*) exit 0;; esac
exit 1
