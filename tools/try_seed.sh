#!/bin/bash
# try_seed.sh <seed-id> : apply /verif/seeded/<id>/patch.diff to /repo, run the property's quick check, revert.
id=$1; prop=${id%%-*}
cd /repo && test -z "$(git status --porcelain)" || { echo "/repo has uncommitted changes; commit them first"; exit 3; }
cd /repo && git apply /verif/seeded/$id/patch.diff || { echo "$id: patch does not apply"; exit 2; }
cd /verif && out=$(./govc/bin/govc check $prop 2>&1); rc=$?
cd /repo && git checkout -- . 
echo "$out" | grep -E "^VIOLATION|^property=" | cut -c1-260
if [ $rc -eq 1 ]; then echo "$id: CAUGHT"; else echo "$id: MISSED (rc=$rc)"; fi
