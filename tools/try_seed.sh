#!/bin/bash
# try_seed.sh <seed-id> [property...] : apply /verif/seeded/<id>/patch.diff to /repo, run the
# quick check of the seed's property (or of the listed properties), revert.
id=$1; shift
props="$*"; [ -z "$props" ] && props=${id%%-*}
cd /repo && test -z "$(git status --porcelain)" || { echo "/repo has uncommitted changes; commit them first"; exit 3; }
cd /repo && git apply /verif/seeded/$id/patch.diff || { echo "$id: patch does not apply"; exit 2; }
caught=0
for prop in $props; do
  cd /verif && out=$(./govc/bin/govc check $prop 2>&1); rc=$?
  echo "$out" | grep -E "^VIOLATION|^property=" | cut -c1-260
  [ $rc -eq 1 ] && caught=1
done
cd /repo && git checkout -- .
if [ $caught -eq 1 ]; then echo "$id: CAUGHT"; else echo "$id: MISSED"; fi
