#!/usr/bin/env python3
# mkcanary.py <property> <name> <repo-relative file> <old-text-file> <new-text-file>
# Writes canaries/<property>/<name>.patch: the diff that replaces the first occurrence of old by new.
import sys,subprocess
prop,name,rel,oldf,newf=sys.argv[1:6]
p='/repo/'+rel
orig=open(p).read(); old=open(oldf).read(); new=open(newf).read()
assert old in orig, 'old text not found'
open(p,'w').write(orig.replace(old,new,1))
d=subprocess.run(['git','-C','/repo','diff','--',rel],capture_output=True,text=True).stdout
open(p,'w').write(orig)
assert d.strip()
open(f'/verif/canaries/{prop}/{name}.patch','w').write(d)
print('written',len(d.splitlines()),'lines')
