#!/bin/bash
# run_all.sh [tier]: every claimed property check on the current /repo tree; prints one line per property.
cd /verif
tier=${1:-quick}
fail=0
for p in $(python3 -c "import json;print(' '.join(sorted(json.load(open('/verif/props/levels.json')).keys())))"); do
  out=$(./govc/bin/govc check $p ${tier/quick/} 2>&1); rc=$?
  echo "$out" | grep -E "^VIOLATION|^KNOWN-FINDING|^property=|load error" | cut -c1-260
  [ $rc -ne 0 ] && fail=1
done
exit $fail
