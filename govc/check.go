package main

// Property checks: `govc check <Cxx> --tier quick|thorough`.

import (
	"bufio"
	"encoding/json"
	"fmt"
	"os"
	"os/exec"
	"path/filepath"
	"regexp"
	"sort"
	"strconv"
	"strings"
	"time"

	"golang.org/x/tools/go/ssa"
)

type PropConfig struct {
	Packages    []string `json:"packages"`
	Sweep       bool     `json:"sweep"`        // lock-balance sweep over every function of the packages
	SweepExempt []string `json:"sweep_exempt"` // function-name substrings excluded from the sweep, with reason after " -- "
	MustHave    []string `json:"must_have"`    // functions that must produce obligations (vacuity guard)
	NotClaimed  []string `json:"not_claimed"`  // clauses of the property statement not decided by this check
	Bounded     []string `json:"bounded"`
	// ExtraGroups: further package groups, each loaded and verified on its own
	ExtraGroups [][]string `json:"extra_groups"`
	Level       string   `json:"level"`
}

type KnownFinding struct {
	Kind       string // finding | fixed
	Property   string
	Obligation string
	Commit     string
	Text       string
}

func loadKnownFindings() []KnownFinding {
	f, err := os.Open("/verif/known_findings.txt")
	if err != nil {
		return nil
	}
	defer f.Close()
	var out []KnownFinding
	sc := bufio.NewScanner(f)
	for sc.Scan() {
		l := strings.TrimSpace(sc.Text())
		if l == "" || strings.HasPrefix(l, "#") {
			continue
		}
		kf := KnownFinding{Text: l}
		switch {
		case strings.HasPrefix(l, "finding:"):
			kf.Kind = "finding"
		case strings.HasPrefix(l, "fixed:"):
			kf.Kind = "fixed"
		default:
			continue
		}
		for _, f := range strings.Fields(l) {
			if strings.HasPrefix(f, "property=") {
				kf.Property = strings.TrimPrefix(f, "property=")
			}
			if strings.HasPrefix(f, "obligation=") {
				kf.Obligation = strings.TrimPrefix(f, "obligation=")
			}
		}
		out = append(out, kf)
	}
	return out
}

func loadPropConfig(id string) (*PropConfig, error) {
	data, err := os.ReadFile("/verif/props/" + id + ".json")
	if err != nil {
		return nil, err
	}
	var c PropConfig
	if err := json.Unmarshal(data, &c); err != nil {
		return nil, fmt.Errorf("props/%s.json: %v", id, err)
	}
	return &c, nil
}

func hasProp(props []string, id string) bool {
	for _, p := range props {
		if p == id {
			return true
		}
	}
	return false
}

type checkRun struct {
	id       string
	tier     string
	cfg      *PropConfig
	prog     *Program
	results  []*FuncResult
	obls     []*Obligation
	problems []string
	wall     float64
}

// selectAndRun verifies everything that contributes obligations to property id.
func selectAndRun(p *Program, id string, cfg *PropConfig, outDir string, timeoutS int, second bool) ([]*FuncResult, []*Obligation, []string) {
	var fullFns, sweepFns []*ssa.Function
	var problems []string
	inFull := map[*ssa.Function]bool{}
	for _, fn := range p.FuncList {
		fc := p.Contracts.Funcs[FuncName(fn)]
		if fc == nil || fc.IsStub {
			continue
		}
		serves := hasProp(fc.Props, id)
		if !serves {
			for _, cl := range fc.Ensures {
				if hasProp(cl.Props, id) {
					serves = true
				}
			}
		}
		if serves {
			fullFns = append(fullFns, fn)
			inFull[fn] = true
		}
	}
	if cfg.Sweep {
		for _, fn := range p.FuncList {
			if inFull[fn] {
				continue
			}
			exempt := false
			for _, e := range cfg.SweepExempt {
				name, _ := splitReason(e)
				if strings.Contains(FuncName(fn), name) {
					exempt = true
				}
			}
			if !exempt {
				sweepFns = append(sweepFns, fn)
			}
		}
	}
	var results []*FuncResult
	results = append(results, runAll(p, fullFns, true, outDir, timeoutS, second)...)
	results = append(results, runAll(p, sweepFns, false, outDir, timeoutS, second)...)
	var obls []*Obligation
	for _, r := range results {
		for _, pr := range r.Problems {
			problems = append(problems, r.Func+": "+pr)
		}
		if r.Panicked != "" {
			if r.Full {
				problems = append(problems, r.Func+": engine failure: "+r.Panicked)
			}
		}
		for _, o := range r.Obls {
			if hasProp(o.Props, id) {
				obls = append(obls, o)
			}
		}
	}
	// contracts that name functions which no longer exist
	for name, fc := range p.Contracts.Funcs {
		if fc.IsStub || !hasProp(fc.Props, id) {
			continue
		}
		if _, ok := p.Funcs[name]; !ok {
			problems = append(problems, "contract-stale: no function "+name+" (contract at "+fc.Pos+")")
		}
	}
	problems = append(problems, p.Contracts.Problems...)
	sort.Strings(problems)
	return results, obls, problems
}

func cmdCheck(args []string) int {
	if len(args) < 1 {
		usage()
	}
	id := args[0]
	tier := os.Getenv("VERIF_TIER")
	if tier == "" {
		tier = "quick"
	}
	for i := 1; i < len(args); i++ {
		if args[i] == "--tier" && i+1 < len(args) {
			tier = args[i+1]
		}
	}
	t0 := time.Now()
	cfg, err := loadPropConfig(id)
	if err != nil {
		fmt.Fprintln(os.Stderr, "error:", err)
		return 2
	}
	timeoutS := 20
	second := false
	if tier == "thorough" {
		timeoutS = 120
		second = true
	}
	outDir := filepath.Join("/verif/out/smt", id)
	os.RemoveAll(outDir)
	os.MkdirAll(outDir, 0o755)
	runs, err := runGroups(id, cfg, nil, outDir, timeoutS, second)
	if err != nil {
		// the tree does not load (does not compile): nothing can be said
		fmt.Fprintln(os.Stderr, "load error:", err)
		return 2
	}
	p := runs[0].prog
	var results []*FuncResult
	var obls []*Obligation
	var problems []string
	progOf := map[*Obligation]*Program{}
	for _, r := range runs {
		results = append(results, r.results...)
		obls = append(obls, r.obls...)
		problems = append(problems, r.problems...)
		for _, o := range r.obls {
			progOf[o] = r.prog
		}
	}

	known := loadKnownFindings()
	replayDir := filepath.Join("/verif/out/replay", id)
	os.RemoveAll(replayDir)
	os.MkdirAll(replayDir, 0o755)

	// a failed obligation is added to the assumptions of later ones; a vacuity
	// guard that is refuted only because of that is not a separate violation
	failedInFunc := map[string]bool{}
	for _, o := range obls {
		if o.Status != "discharged" && o.Kind != "vacuity" {
			failedInFunc[o.Func] = true
		}
	}
	for _, o := range obls {
		if o.Kind == "vacuity" && o.Status != "discharged" && failedInFunc[o.Func] {
			o.Status = "discharged"
			o.Solver = "subsumed-by-failed-obligation"
		}
	}
	violations := 0
	var knownHit []string
	discharged := 0
	var solverSecs float64
	bySolver := map[string]int{}
	for _, o := range obls {
		solverSecs += o.Seconds
		if o.Status == "discharged" {
			discharged++
			bySolver[o.Solver]++
			continue
		}
		// known finding?
		isKnown := false
		for _, kf := range known {
			if kf.Kind == "finding" && kf.Property == id && kf.Obligation == o.ID {
				fmt.Printf("KNOWN-FINDING: property=%s %s\n", id, strings.TrimPrefix(kf.Text, "finding: "))
				knownHit = append(knownHit, o.ID)
				isKnown = true
			}
		}
		if isKnown {
			continue
		}
		violations++
		path, reproduced := writeReplay(progOf[o], id, o, replayDir)
		suffix := ""
		if !reproduced {
			suffix = " no-failing-input-found"
		}
		fmt.Printf("VIOLATION property=%s replay=%s%s\n", id, path, suffix)
	}
	// vacuity guards at the level of the property
	generated := map[string]bool{}
	fnObls := map[string]int{}
	for _, o := range obls {
		generated[o.ID] = true
		fnObls[o.Func]++
	}
	for _, must := range cfg.MustHave {
		found := false
		for f, n := range fnObls {
			if strings.Contains(f, must) && n > 0 {
				found = true
			}
		}
		if !found {
			problems = append(problems, "vacuity: no obligation generated for "+must)
		}
	}
	// inventory: obligations that used to be generated must still be generated
	inv := loadInventory(id)
	for _, want := range inv {
		if !generated[want] {
			problems = append(problems, "contract-stale: obligation no longer generated: "+want)
		}
	}
	if len(obls) == 0 {
		problems = append(problems, "vacuity: the check generated no obligations")
	}
	for i, pr := range problems {
		violations++
		path := filepath.Join(replayDir, fmt.Sprintf("problem-%d.json", i+1))
		writeJSON(path, map[string]interface{}{"property": id, "obligation": "contract-integrity", "problem": pr,
			"explanation": "the contracts could not be applied to the current source (renamed or removed function/field, or an engine failure); the property cannot be established"})
		fmt.Printf("VIOLATION property=%s replay=%s no-failing-input-found\n", id, path)
	}

	// canaries (thorough tier)
	var canaryReport map[string]interface{}
	if tier == "thorough" {
		canaryReport = runCanaries(id, cfg, timeoutS)
	}

	wall := time.Since(t0).Seconds()
	writeEvidence(p, id, tier, cfg, results, obls, discharged, violations, knownHit, problems, solverSecs, bySolver, canaryReport, wall)
	if os.Getenv("GOVC_UPDATE_INVENTORY") == "1" && violations == 0 {
		saveInventory(id, obls, timeoutS)
	}
	fmt.Printf("property=%s tier=%s functions=%d obligations=%d discharged=%d violations=%d known=%d wall=%.1fs\n",
		id, tier, len(results), len(obls), discharged, violations, len(knownHit), wall)
	if violations > 0 {
		return 1
	}
	return 0
}

func loadInventory(id string) []string {
	data, err := os.ReadFile("/verif/baseline/obligations/" + id + ".txt")
	if err != nil {
		return nil
	}
	var out []string
	for _, l := range strings.Split(string(data), "\n") {
		l = strings.TrimSpace(l)
		if l != "" && !strings.HasPrefix(l, "#") {
			out = append(out, strings.Fields(l)[0])
		}
	}
	return out
}

func saveInventory(id string, obls []*Obligation, timeoutS int) {
	os.MkdirAll("/verif/baseline/obligations", 0o755)
	var lines []string
	for _, o := range obls {
		lines = append(lines, o.ID)
	}
	sort.Strings(lines)
	os.WriteFile("/verif/baseline/obligations/"+id+".txt", []byte(strings.Join(lines, "\n")+"\n"), 0o644)
}

func writeJSON(path string, v interface{}) {
	data, _ := json.MarshalIndent(v, "", " ")
	os.WriteFile(path, data, 0o644)
}

// ---------------------------------------------------------------------------
// replay

type replayTemplate struct {
	File    string
	Pattern *regexp.Regexp
	Pkg     string
	Test    string
}

func loadReplayTemplates() []replayTemplate {
	files, _ := filepath.Glob("/verif/replay/*_test.go")
	var out []replayTemplate
	for _, f := range files {
		data, err := os.ReadFile(f)
		if err != nil {
			continue
		}
		var rt replayTemplate
		rt.File = f
		for _, l := range strings.Split(string(data), "\n") {
			if strings.HasPrefix(l, "// replay-obligation:") {
				re, err := regexp.Compile(strings.TrimSpace(strings.TrimPrefix(l, "// replay-obligation:")))
				if err == nil {
					rt.Pattern = re
				}
			}
			if strings.HasPrefix(l, "// replay-package:") {
				rt.Pkg = strings.TrimSpace(strings.TrimPrefix(l, "// replay-package:"))
			}
			if strings.HasPrefix(l, "// replay-test:") {
				rt.Test = strings.TrimSpace(strings.TrimPrefix(l, "// replay-test:"))
			}
		}
		if rt.Pattern != nil && rt.Pkg != "" && rt.Test != "" {
			out = append(out, rt)
		}
	}
	return out
}

// runReplay runs an in-package test on the real code through go test -overlay.
// It returns (ran, failedOnRealCode, output).
func runReplay(rt replayTemplate) (bool, bool, string) {
	pkgDir := filepath.Join(repoDir, rt.Pkg)
	ov := map[string]string{}
	ents, _ := os.ReadDir(pkgDir)
	for _, e := range ents {
		if strings.HasSuffix(e.Name(), "_test.go") {
			ov[filepath.Join(pkgDir, e.Name())] = ""
		}
	}
	ov[filepath.Join(pkgDir, "zz_govc_replay_test.go")] = rt.File
	ovFile := filepath.Join("/verif/out", fmt.Sprintf("overlay-%d.json", os.Getpid()))
	writeJSON(ovFile, map[string]interface{}{"Replace": ov})
	defer os.Remove(ovFile)
	cmd := exec.Command("go", "test", "-overlay", ovFile, "-vet=off", "-count=1", "-timeout", "60s", "-run", "^"+rt.Test+"$", "./"+rt.Pkg)
	cmd.Dir = repoDir
	cmd.Env = append(os.Environ(), "GOFLAGS=-mod=mod", "GOPROXY=off", "GOSUMDB=off", "GOTOOLCHAIN=local")
	out, err := cmd.CombinedOutput()
	text := string(out)
	if err == nil {
		return true, false, text
	}
	// a replay test reports a reproduced violation with an explicit marker, so
	// that a broken harness (panic in a fake, build failure) is never taken
	// for a reproduction
	if strings.Contains(text, "GOVC-REPLAY-VIOLATION") {
		return true, true, text
	}
	if strings.Contains(text, "--- FAIL") || strings.Contains(text, "panic:") || strings.Contains(text, "test timed out") {
		return false, false, "replay harness failed without reproducing the violation:\n" + text
	}
	return false, false, text // build failure etc.
}

func writeReplay(p *Program, id string, o *Obligation, dir string) (string, bool) {
	path := filepath.Join(dir, sanitizeFile(o.ID)+".json")
	rec := map[string]interface{}{
		"property":   id,
		"obligation": o.ID,
		"kind":       o.Kind,
		"function":   o.Func,
		"position":   o.Pos,
		"status":     o.Status,
		"solver":     o.Solver,
		"seconds":    o.Seconds,
		"smt_query":  o.Query,
	}
	if o.Model != "" {
		rec["solver_model"] = truncate(o.Model, 20000)
	}
	if o.Output != "" {
		rec["solver_output"] = truncate(o.Output, 4000)
	}
	reproduced := false
	for _, rt := range loadReplayTemplates() {
		if !rt.Pattern.MatchString(o.ID) {
			continue
		}
		ran, failed, out := runReplay(rt)
		rec["replay_test"] = rt.File
		rec["replay_ran"] = ran
		rec["replay_output"] = truncate(out, 6000)
		if ran && failed {
			reproduced = true
			rec["replay_result"] = "the failing input was reproduced on the real code (test fails)"
		} else if ran {
			rec["replay_result"] = "the replay test passes on the real code: counterexample not reproduced"
		} else {
			rec["replay_result"] = "the replay test could not be built/run"
		}
		break
	}
	if _, tried := rec["replay_test"]; !tried {
		// no hand-written reproduction for this obligation: functions over
		// scalars are replayed generically from the solver's model
		reproduced = genericReplay(p, o, dir, rec)
	}
	if !reproduced {
		rec["note"] = "no-failing-input-found: the obligation is not discharged on the current tree; it is discharged on the unchanged tree"
	}
	writeJSON(path, rec)
	return path, reproduced
}

// ---------------------------------------------------------------------------
// evidence

func writeEvidence(p *Program, id, tier string, cfg *PropConfig, results []*FuncResult, obls []*Obligation, discharged, violations int,
	knownHit, problems []string, solverSecs float64, bySolver map[string]int, canaries map[string]interface{}, wall float64) {
	seed := 0
	fmt.Sscanf(os.Getenv("VERIF_SEED"), "%d", &seed)
	var under, sweepFns []string
	inlined := map[string]bool{}
	stubs := map[string]bool{}
	notes := map[string]bool{}
	var assumed []string
	for _, r := range results {
		n := 0
		for _, o := range r.Obls {
			if hasProp(o.Props, id) {
				n++
			}
		}
		if n == 0 {
			continue
		}
		if r.Full {
			under = append(under, r.Func)
		} else {
			sweepFns = append(sweepFns, r.Func)
		}
		for _, i := range r.Inlined {
			inlined[i] = true
		}
		for _, s := range r.Stubs {
			stubs[s] = true
		}
		for _, nt := range r.Notes {
			notes[nt] = true
		}
		assumed = append(assumed, r.Assumptions...)
	}
	var samples []interface{}
	for i, o := range obls {
		if i%maxInt(1, len(obls)/12) == 0 && len(samples) < 14 {
			samples = append(samples, map[string]interface{}{"obligation": o.ID, "kind": o.Kind, "status": o.Status, "solver": o.Solver, "seconds": round3(o.Seconds), "at": o.Pos})
		}
	}
	// the slowest queries: how far the check is from its per-query time limit
	// (vacuity guards have their own short budget and pass when the solver
	// does not refute them in time; they are left out here)
	var byTime []*Obligation
	for _, o := range obls {
		if !o.MustBeSat {
			byTime = append(byTime, o)
		}
	}
	sort.Slice(byTime, func(i, j int) bool { return byTime[i].Seconds > byTime[j].Seconds })
	var slowest []interface{}
	for i, o := range byTime {
		if i >= 5 {
			break
		}
		slowest = append(slowest, map[string]interface{}{"obligation": o.ID, "solver": o.Solver, "seconds": round3(o.Seconds)})
	}
	kinds := map[string]int{}
	for _, o := range obls {
		kinds[o.Kind]++
	}
	trusted := []string{
		"go/packages + go/types + go/ssa (x/tools v0.50.0) represent the program faithfully",
		"the govc VC generator (unverified; guarded by vacuity obligations and must-fail canaries)",
		"SMT solver answers (z3 5.1.0, cvc5 1.0.3, z3 4.8.12)",
	}
	var stubList []string
	for s := range stubs {
		stubList = append(stubList, s)
	}
	sort.Strings(stubList)
	for _, s := range stubList {
		trusted = append(trusted, "assumed contract (stub): "+s)
	}
	assumptions := []string{
		"integers: Go wrap-around arithmetic is modelled exactly (mathematical integers with explicit wrap); no machine arithmetic is treated as mathematical unless a contract says `safety nowrap`, in which case no-wrap is an obligation",
		"concurrency: shared state is havocked at lock acquisition only where a contract says so; goroutine bodies are verified separately and not interleaved; data races are not modelled",
		"panicking executions (explicit panic, failed bounds check, nil dereference) end the path: contracts are partial-correctness statements about returning executions unless a safety clause is present",
		"callees in the target packages without a contract are inlined (small, non-recursive) or replaced by a havoc of their inferred write-set; callees outside the target packages without a stub return arbitrary values and may write through scalar pointers passed to them",
		"interface values holding typed nil pointers are identified with nil",
		"strings, protobuf messages, time values and other external struct values are opaque",
	}
	assumptions = append(assumptions, assumed...)
	var noteList []string
	for n := range notes {
		noteList = append(noteList, n)
	}
	sort.Strings(noteList)
	if len(noteList) > 40 {
		noteList = append(noteList[:40], fmt.Sprintf("... %d more", len(noteList)-40))
	}
	var inl []string
	for i := range inlined {
		inl = append(inl, i)
	}
	sort.Strings(inl)
	sort.Strings(under)
	level := cfg.Level
	if level == "" {
		level = "proof"
	}
	cov := map[string]interface{}{
		"obligations":              len(obls),
		"discharged":               discharged,
		"checker_cmd":              fmt.Sprintf("/verif/govc/bin/govc check %s --tier %s", id, tier),
		"trusted_base":             trusted,
		"samples":                  samples,
		"slowest_queries":          slowest,
		"obligation_kinds":         kinds,
		"functions_under_contract": under,
		"functions_swept":          len(sweepFns),
		"solver_seconds_total":     round3(solverSecs),
		"discharged_by":            bySolver,
		"inlined_callees":          inl,
		"engine_notes":             noteList,
		"not_claimed_clauses":      cfg.NotClaimed,
		"bounded":                  cfg.Bounded,
		"known_findings_hit":       knownHit,
		"contract_problems":        problems,
		"evaluations":              len(obls),
		"distinct_nontrivial":      countNontrivial(obls),
		"rule":                     "one SMT query per generated obligation; non-trivial = not discharged syntactically by the term simplifier (needed a solver)",
	}
	if canaries != nil {
		cov["canaries"] = canaries
	}
	ev := map[string]interface{}{
		"property_id": id,
		"tier":        tier,
		"seed":        seed,
		"level":       level,
		"coverage":    cov,
		"assumptions": assumptions,
		"wall_s":      round3(wall),
		"violations":  violations,
	}
	os.MkdirAll("/verif/evidence", 0o755)
	writeJSON("/verif/evidence/"+id+".json", ev)
}

func countNontrivial(obls []*Obligation) int {
	n := 0
	for _, o := range obls {
		if o.Solver != "trivial" {
			n++
		}
	}
	return n
}

func maxInt(a, b int) int {
	if a > b {
		return a
	}
	return b
}
func round3(f float64) float64 { return float64(int(f*1000+0.5)) / 1000 }

// ---------------------------------------------------------------------------
// canaries: deliberately property-breaking patches fed through the loader overlay

func runCanaries(id string, cfg *PropConfig, timeoutS int) map[string]interface{} {
	files, _ := filepath.Glob("/verif/canaries/" + id + "/*.patch")
	sort.Strings(files)
	killed, total, skipped := 0, 0, 0
	var survivors, details []string
	for _, pf := range files {
		overlay, err := patchOverlay(pf)
		if err != nil {
			skipped++
			details = append(details, filepath.Base(pf)+": skipped ("+err.Error()+")")
			continue
		}
		total++
		outDir := filepath.Join("/verif/out/smt", id+"-canary")
		os.RemoveAll(outDir)
		runs, err := runGroups(id, cfg, overlay, outDir, timeoutS, false)
		if err != nil {
			skipped++
			total--
			details = append(details, filepath.Base(pf)+": skipped (does not load: "+truncate(err.Error(), 200)+")")
			continue
		}
		var obls []*Obligation
		var problems []string
		for _, r := range runs {
			obls = append(obls, r.obls...)
			problems = append(problems, r.problems...)
		}
		bad := len(problems)
		var first string
		for _, o := range obls {
			if o.Status != "discharged" {
				bad++
				if first == "" {
					first = o.ID
				}
			}
		}
		// known findings of the unchanged tree do not count as kills
		if bad > 0 && first != "" {
			killed++
			details = append(details, filepath.Base(pf)+": killed by "+first)
		} else if bad > 0 {
			killed++
			details = append(details, filepath.Base(pf)+": killed (contract integrity)")
		} else {
			survivors = append(survivors, filepath.Base(pf))
			details = append(details, filepath.Base(pf)+": SURVIVED")
		}
	}
	return map[string]interface{}{"total": total, "killed": killed, "skipped": skipped, "survivors": survivors, "details": details}
}

// patchOverlay applies a unified diff to copies of the files it touches and
// returns the overlay map for the package loader.
func patchOverlay(patchFile string) (map[string][]byte, error) {
	data, err := os.ReadFile(patchFile)
	if err != nil {
		return nil, err
	}
	re := regexp.MustCompile(`(?m)^\+\+\+ b/(\S+)`)
	ms := re.FindAllStringSubmatch(string(data), -1)
	if len(ms) == 0 {
		return nil, fmt.Errorf("no files in patch")
	}
	tmp, err := os.MkdirTemp("/verif/out", "canary")
	if err != nil {
		return nil, err
	}
	defer os.RemoveAll(tmp)
	for _, m := range ms {
		src := filepath.Join(repoDir, m[1])
		dst := filepath.Join(tmp, m[1])
		os.MkdirAll(filepath.Dir(dst), 0o755)
		b, err := os.ReadFile(src)
		if err != nil {
			return nil, err
		}
		os.WriteFile(dst, b, 0o644)
	}
	cmd := exec.Command("patch", "-p1", "-s", "-i", patchFile)
	cmd.Dir = tmp
	if out, err := cmd.CombinedOutput(); err != nil {
		return nil, fmt.Errorf("patch does not apply: %s", truncate(string(out), 200))
	}
	overlay := map[string][]byte{}
	for _, m := range ms {
		b, err := os.ReadFile(filepath.Join(tmp, m[1]))
		if err != nil {
			return nil, err
		}
		overlay[filepath.Join(repoDir, m[1])] = b
	}
	return overlay, nil
}

// cmdTrySeeds feeds every seeded change (seeded/<id>/patch.diff) through the
// loader overlay into the quick check of every claimed property whose packages
// contain a file the change touches, and records which obligations fail.
// /repo itself is not modified. Output: one line per change, also written to
// seeded/RESULTS.txt.
// cmdEquivTest: the must-stay-quiet corpus. Every change under
// /verif/equivalents/ keeps all properties intact (renamed variables, reordered
// independent statements, added logging, ...); no check may report anything
// for it. Exit status 1 if one does.
func cmdEquivTest(args []string) int {
	seedRoot = "/verif/equivalents/E*-*"
	defer func() { seedRoot = "/verif/seeded/C*-*" }()
	equivMode = true
	defer func() { equivMode = false }()
	return cmdTrySeeds(args)
}

var seedRoot = "/verif/seeded/C*-*"
var equivMode = false

func cmdTrySeeds(args []string) int {
	dirs, _ := filepath.Glob(seedRoot)
	sort.Slice(dirs, func(i, j int) bool { return natLess(filepath.Base(dirs[i]), filepath.Base(dirs[j])) })
	lv, _ := os.ReadFile("/verif/props/levels.json")
	levels := map[string]json.RawMessage{}
	json.Unmarshal(lv, &levels)
	var props []string
	for id := range levels {
		props = append(props, id)
	}
	sort.Strings(props)
	var lines []string
	missed := 0
	for _, d := range dirs {
		seed := filepath.Base(d)
		if len(args) > 0 {
			want := false
			for _, a := range args {
				if a == seed || strings.HasPrefix(seed, a+"-") {
					want = true
				}
			}
			if !want {
				continue
			}
		}
		pf := filepath.Join(d, "patch.diff")
		data, err := os.ReadFile(pf)
		if err != nil {
			continue
		}
		var touched []string
		for _, m := range regexp.MustCompile(`(?m)^\+\+\+ b/(\S+)`).FindAllStringSubmatch(string(data), -1) {
			touched = append(touched, filepath.Dir(m[1]))
		}
		overlay, err := patchOverlay(pf)
		if err != nil {
			lines = append(lines, seed+": SKIPPED ("+err.Error()+")")
			continue
		}
		var hits []string
		for _, id := range props {
			cfg, err := loadPropConfig(id)
			if err != nil {
				continue
			}
			covers := false
			var allPkgs []string
			for _, g := range cfg.groups() {
				allPkgs = append(allPkgs, g...)
			}
			for _, pk := range allPkgs {
				pk = strings.TrimPrefix(pk, "./")
				for _, t := range touched {
					if strings.HasSuffix(pk, "/...") {
						if strings.HasPrefix(t+"/", strings.TrimSuffix(pk, "...")) {
							covers = true
						}
					} else if pk == t {
						covers = true
					}
				}
			}
			if !covers {
				continue
			}
			outDir := filepath.Join("/verif/out/smt", "seed-"+seed+"-"+id)
			os.RemoveAll(outDir)
			runs, err := runGroups(id, cfg, overlay, outDir, 20, false)
			if err != nil {
				hits = append(hits, id+":does-not-load")
				continue
			}
			var obls []*Obligation
			var problems []string
			for _, r := range runs {
				obls = append(obls, r.obls...)
				problems = append(problems, r.problems...)
			}
			for _, o := range obls {
				if o.Status != "discharged" {
					hits = append(hits, id+":"+o.ID)
				}
			}
			if len(problems) > 0 {
				hits = append(hits, id+":contract-integrity ("+truncate(problems[0], 160)+")")
			}
			os.RemoveAll(outDir)
		}
		verdict := "CAUGHT"
		if len(hits) == 0 {
			verdict = "MISSED"
			missed++
		}
		if len(hits) > 4 {
			hits = append(hits[:4], fmt.Sprintf("(+%d more)", len(hits)-4))
		}
		line := fmt.Sprintf("%s: %s | %s", seed, verdict, strings.Join(hits, " ; "))
		fmt.Println(line)
		lines = append(lines, line)
	}
	if equivMode {
		alarms := len(lines) - missed
		if len(args) == 0 {
			os.WriteFile("/verif/equivalents/RESULTS.txt", []byte(strings.ReplaceAll(strings.ReplaceAll(strings.Join(lines, "\n"), ": MISSED", ": QUIET"), ": CAUGHT", ": ALARM")+"\n"), 0o644)
		}
		fmt.Printf("property-preserving changes: %d, false alarms: %d\n", len(lines), alarms)
		if alarms > 0 {
			return 1
		}
		return 0
	}
	if len(args) == 0 {
		os.WriteFile("/verif/seeded/RESULTS.txt", []byte(strings.Join(lines, "\n")+"\n"), 0o644)
	}
	fmt.Printf("seeded changes: %d, missed: %d\n", len(lines), missed)
	return 0
}

func natLess(a, b string) bool {
	pa, pb := strings.SplitN(a, "-", 2), strings.SplitN(b, "-", 2)
	if pa[0] != pb[0] {
		return pa[0] < pb[0]
	}
	na, _ := strconv.Atoi(pa[len(pa)-1])
	nb, _ := strconv.Atoi(pb[len(pb)-1])
	return na < nb
}

func cmdSelftest(args []string) int {
	dirs, _ := filepath.Glob("/verif/canaries/*")
	sort.Strings(dirs)
	fail := 0
	for _, d := range dirs {
		id := filepath.Base(d)
		if len(args) > 0 {
			want := false
			for _, a := range args {
				if a == id {
					want = true
				}
			}
			if !want {
				continue
			}
		}
		cfg, err := loadPropConfig(id)
		if err != nil {
			continue
		}
		rep := runCanaries(id, cfg, 20)
		fmt.Printf("%s: killed %v / %v (skipped %v)\n", id, rep["killed"], rep["total"], rep["skipped"])
		for _, dl := range rep["details"].([]string) {
			fmt.Println("   ", dl)
		}
		if s, ok := rep["survivors"].([]string); ok && len(s) > 0 {
			fail = 1
		}
	}
	return fail
}
