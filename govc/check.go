package main

func cmdCheck(args []string) int   { return 2 }
func cmdSelftest(args []string) int { return 2 }
