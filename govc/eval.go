package main

// Evaluation of contract expressions against a symbolic state.

import (
	"fmt"
	"go/constant"
	"go/token"
	"go/types"
	"math/big"
	"strings"

	"golang.org/x/tools/go/packages"
	"golang.org/x/tools/go/ssa"
)

// SV: a spec value: symbolic value plus (optional) Go type.
type SV struct {
	V Value
	T types.Type
}

type EvalCtx struct {
	ex     *Exec
	st     *State
	old    *State
	env    map[string]SV
	oldEnv map[string]SV
	pkg    *packages.Package
	fnPos  token.Pos
	depth  int
	hst    *State // state that havocTarget writes to (default: st)
}

func (c *EvalCtx) hs() *State {
	if c.hst != nil {
		return c.hst
	}
	return c.st
}

func (c *EvalCtx) with(st *State, env map[string]SV) *EvalCtx {
	n := *c
	n.st = st
	if env != nil {
		n.env = env
	}
	return &n
}

func (c *EvalCtx) evalBool(e *SExpr) (*Term, error) {
	sv, err := c.eval(e)
	if err != nil {
		return nil, err
	}
	tv, ok := sv.V.(TV)
	if !ok || tv.T.Sort != SBool {
		return nil, fmt.Errorf("%s is not a boolean", e)
	}
	return tv.T, nil
}

func (c *EvalCtx) evalTerm(e *SExpr) (*Term, types.Type, error) {
	sv, err := c.eval(e)
	if err != nil {
		return nil, nil, err
	}
	switch v := sv.V.(type) {
	case TV:
		return v.T, sv.T, nil
	case Loc:
		if t, ok := c.ex.reify(v); ok {
			return t, sv.T, nil
		}
	case Closure, FnVal:
		return c.ex.term(v, SInt, "spec"), sv.T, nil
	}
	return nil, nil, fmt.Errorf("%s has no term value (%T)", e, sv.V)
}

var specConsts = map[string]string{
	"MaxUint64": "18446744073709551615",
	"MaxInt64":  "9223372036854775807",
	"MinInt64":  "-9223372036854775808",
	"MaxUint32": "4294967295",
	"MaxInt32":  "2147483647",
	"MaxInt":    "9223372036854775807",
}

func (c *EvalCtx) scopePkgPos() (*types.Package, token.Pos) {
	if c.pkg == nil {
		return nil, token.NoPos
	}
	return c.pkg.Types, c.fnPos
}

func (c *EvalCtx) goEval(expr string) (types.TypeAndValue, error) {
	pkg, pos := c.scopePkgPos()
	if pkg == nil {
		return types.TypeAndValue{}, fmt.Errorf("no package scope to resolve %q", expr)
	}
	tv, err := types.Eval(c.ex.prog.Fset, pkg, pos, expr)
	if err != nil && pos.IsValid() {
		// fall back to any file of the package that resolves it
		for _, f := range c.pkg.Syntax {
			if tv2, err2 := types.Eval(c.ex.prog.Fset, pkg, f.End()-1, expr); err2 == nil {
				return tv2, nil
			}
		}
	}
	if err != nil && !pos.IsValid() {
		for _, f := range c.pkg.Syntax {
			if tv2, err2 := types.Eval(c.ex.prog.Fset, pkg, f.End()-1, expr); err2 == nil {
				return tv2, nil
			}
		}
	}
	return tv, err
}

// importedVar resolves pkgName.name to a package-level variable of a package
// imported (possibly under an alias) by some file of the current package.
func (c *EvalCtx) importedVar(pkgName, name string) *types.Var {
	if c.pkg == nil {
		return nil
	}
	for _, f := range c.pkg.Syntax {
		for _, is := range f.Imports {
			path := strings.Trim(is.Path.Value, "\"")
			ip := c.pkg.Imports[path]
			if ip == nil || ip.Types == nil {
				continue
			}
			local := ip.Types.Name()
			if is.Name != nil {
				local = is.Name.Name
			}
			if local != pkgName {
				continue
			}
			if v, ok := ip.Types.Scope().Lookup(name).(*types.Var); ok {
				return v
			}
		}
	}
	return nil
}

func (c *EvalCtx) resolveType(s string) (types.Type, error) {
	s = strings.TrimSpace(s)
	switch s {
	case "ref", "":
		return nil, nil
	case "int":
		return types.Typ[types.Int], nil
	case "bool":
		return types.Typ[types.Bool], nil
	case "uint64":
		return types.Typ[types.Uint64], nil
	case "uint32":
		return types.Typ[types.Uint32], nil
	case "int64":
		return types.Typ[types.Int64], nil
	case "mathint":
		return types.Typ[types.UntypedInt], nil
	}
	tv, err := c.goEval(s)
	if err != nil {
		return nil, fmt.Errorf("cannot resolve type %q: %v", s, err)
	}
	if !tv.IsType() {
		return nil, fmt.Errorf("%q is not a type", s)
	}
	return tv.Type, nil
}

func (c *EvalCtx) constValue(tv types.TypeAndValue) (SV, bool) {
	if tv.Value == nil {
		return SV{}, false
	}
	ts := c.ex.ts
	switch tv.Value.Kind() {
	case constant.Int:
		bi, ok := new(big.Int).SetString(tv.Value.ExactString(), 10)
		if ok {
			return SV{V: TV{ts.IntBig(bi)}, T: tv.Type}, true
		}
	case constant.Bool:
		return SV{V: TV{ts.Bool(constant.BoolVal(tv.Value))}, T: tv.Type}, true
	case constant.String:
		return SV{V: TV{c.ex.strLit(constant.StringVal(tv.Value))}, T: tv.Type}, true
	}
	return SV{}, false
}

func (c *EvalCtx) eval(e *SExpr) (SV, error) {
	ex := c.ex
	ts := ex.ts
	switch e.Kind {
	case "int":
		bi, ok := new(big.Int).SetString(e.Val, 0)
		if !ok {
			return SV{}, fmt.Errorf("bad integer %s", e.Val)
		}
		return SV{V: TV{ts.IntBig(bi)}}, nil
	case "bool":
		return SV{V: TV{ts.Bool(e.Val == "true")}, T: types.Typ[types.Bool]}, nil
	case "nil":
		return SV{V: TV{ts.Int(0)}}, nil
	case "str":
		s := strings.Trim(e.Val, "\"")
		return SV{V: TV{ex.strLit(s)}, T: types.Typ[types.String]}, nil
	case "ident":
		if v, ok := c.env[e.Name]; ok {
			if v.V == nil {
				return SV{}, fmt.Errorf("%s has no value here", e.Name)
			}
			return v, nil
		}
		if s, ok := specConsts[e.Name]; ok {
			bi, _ := new(big.Int).SetString(s, 10)
			return SV{V: TV{ts.IntBig(bi)}}, nil
		}
		if tv, err := c.goEval(e.Name); err == nil {
			if sv, ok := c.constValue(tv); ok {
				return sv, nil
			}
			if tv.IsType() {
				return SV{}, fmt.Errorf("%s is a type, not a value", e.Name)
			}
			// package-level variable
			if c.pkg != nil {
				if obj := c.pkg.Types.Scope().Lookup(e.Name); obj != nil {
					if _, isVar := obj.(*types.Var); isVar {
						key := "global!" + c.pkg.PkgPath + "." + e.Name
						addr := ts.Const(smtIdent(key), SInt)
						return SV{V: ex.load(c.st, TV{addr}, obj.Type()), T: obj.Type()}, nil
					}
				}
			}
		}
		return SV{}, fmt.Errorf("unknown identifier %s", e.Name)
	case "unary":
		switch e.Name {
		case "!":
			t, err := c.evalBool(e.Args[0])
			if err != nil {
				return SV{}, err
			}
			return SV{V: TV{ts.Not(t)}, T: types.Typ[types.Bool]}, nil
		case "-":
			t, ty, err := c.evalTerm(e.Args[0])
			if err != nil {
				return SV{}, err
			}
			return SV{V: TV{ts.Neg(t)}, T: ty}, nil
		case "^":
			t, ty, err := c.evalTerm(e.Args[0])
			if err != nil {
				return SV{}, err
			}
			if ty != nil && isUnsigned(ty) {
				_, hi := intRange(ty)
				return SV{V: TV{ts.Sub(ts.IntBig(hi), t)}, T: ty}, nil
			}
			return SV{V: TV{ts.Sub(ts.Neg(t), ts.Int(1))}, T: ty}, nil
		case "*":
			sv, err := c.eval(e.Args[0])
			if err != nil {
				return SV{}, err
			}
			if sv.T == nil || derefType(sv.T) == nil {
				return SV{}, fmt.Errorf("cannot dereference %s", e.Args[0])
			}
			el := derefType(sv.T)
			return SV{V: ex.load(c.st, sv.V, el), T: el}, nil
		case "&":
			return c.evalAddr(e.Args[0])
		}
	case "binary":
		return c.evalBinary(e)
	case "field":
		return c.evalField(e)
	case "index":
		return c.evalIndex(e)
	case "call":
		return c.evalCall(e)
	case "forall", "exists":
		env := map[string]SV{}
		for k, v := range c.env {
			env[k] = v
		}
		var vars []*Term
		guard := ts.True()
		for _, v := range e.Vars {
			ty, err := c.resolveType(v.Type)
			if err != nil {
				return SV{}, err
			}
			sort := SInt
			if ty != nil {
				sort = ex.tm.SortOf(ty)
			}
			bv := ts.BoundVar(v.Name, sort)
			vars = append(vars, bv)
			env[v.Name] = SV{V: TV{bv}, T: ty}
			if ty != nil {
				if lo, hi := intRange(ty); lo != nil {
					guard = ts.And(guard, ts.Le(ts.IntBig(lo), bv), ts.Le(bv, ts.IntBig(hi)))
				}
			}
		}
		sub := c.with(c.st, env)
		if c.oldEnv != nil {
			oe := map[string]SV{}
			for k, v := range c.oldEnv {
				oe[k] = v
			}
			for _, v := range e.Vars {
				oe[v.Name] = env[v.Name]
			}
			sub.oldEnv = oe
		}
		body, err := sub.evalBool(e.Args[0])
		if err != nil {
			return SV{}, err
		}
		if e.Kind == "forall" {
			return SV{V: TV{ts.Forall(vars, ts.Implies(guard, body))}, T: types.Typ[types.Bool]}, nil
		}
		return SV{V: TV{ts.Exists(vars, ts.And(guard, body))}, T: types.Typ[types.Bool]}, nil
	}
	return SV{}, fmt.Errorf("cannot evaluate %s", e)
}

func (c *EvalCtx) evalBinary(e *SExpr) (SV, error) {
	ex := c.ex
	ts := ex.ts
	boolT := types.Typ[types.Bool]
	switch e.Name {
	case "&&", "||", "==>", "<==>":
		a, err := c.evalBool(e.Args[0])
		if err != nil {
			return SV{}, err
		}
		b, err := c.evalBool(e.Args[1])
		if err != nil {
			return SV{}, err
		}
		switch e.Name {
		case "&&":
			return SV{V: TV{ts.And(a, b)}, T: boolT}, nil
		case "||":
			return SV{V: TV{ts.Or(a, b)}, T: boolT}, nil
		case "==>":
			return SV{V: TV{ts.Implies(a, b)}, T: boolT}, nil
		default:
			return SV{V: TV{ts.Eq(a, b)}, T: boolT}, nil
		}
	case "in":
		k, _, err := c.evalTerm(e.Args[0])
		if err != nil {
			return SV{}, err
		}
		m, mt, err := c.evalTerm(e.Args[1])
		if err != nil {
			return SV{}, err
		}
		mtt, ok := mt.Underlying().(*types.Map)
		if mt == nil || !ok {
			return SV{}, fmt.Errorf("%s is not a map", e.Args[1])
		}
		ks := ex.tm.SortOf(mtt.Key())
		dom := ex.heapGet(c.st, MapDomKey(ks, mtt), SArray(SInt, SArray(ks, SBool)))
		return SV{V: TV{ts.And(ts.Neq(m, ts.Int(0)), ts.Select(ts.Select(dom, m), k))}, T: boolT}, nil
	}
	a, at, err := c.evalTerm(e.Args[0])
	if err != nil {
		return SV{}, err
	}
	b, bt, err := c.evalTerm(e.Args[1])
	if err != nil {
		return SV{}, err
	}
	rt := at
	if rt == nil {
		rt = bt
	}
	// comparison of a slice with nil: a nil slice has no backing array
	if a.Sort.Name == "Slice" && e.Args[1].Kind == "nil" {
		a, b = ts.SelectField(ex.tm.slice, 0, a), ts.Int(0)
	} else if b.Sort.Name == "Slice" && e.Args[0].Kind == "nil" {
		a, b = ts.Int(0), ts.SelectField(ex.tm.slice, 0, b)
	}
	if a.Sort != b.Sort {
		if a.Sort == SReal && b.Sort == SInt {
			b = ts.RealFromInt(b)
		} else if a.Sort == SInt && b.Sort == SReal {
			a = ts.RealFromInt(a)
		} else if (e.Name == "==" || e.Name == "!=") && a.Sort == SInt && strings.HasPrefix(b.Sort.Name, "S_") {
			// a reference-sorted key compared with a structured value:
			// compare with the value's injective encoding (see evalIndex)
			enc := ex.uf("keyenc!"+smtIdent(b.Sort.String()), SInt, b)
			ex.assume(ts.True(), ts.Eq(ex.uf("keydec!"+smtIdent(b.Sort.String()), b.Sort, enc), b))
			b = enc
		} else if (e.Name == "==" || e.Name == "!=") && b.Sort == SInt && strings.HasPrefix(a.Sort.Name, "S_") {
			enc := ex.uf("keyenc!"+smtIdent(a.Sort.String()), SInt, a)
			ex.assume(ts.True(), ts.Eq(ex.uf("keydec!"+smtIdent(a.Sort.String()), a.Sort, enc), a))
			a = enc
		} else {
			return SV{}, fmt.Errorf("operands of %s have sorts %s and %s in %s", e.Name, a.Sort, b.Sort, e)
		}
	}
	switch e.Name {
	case "==":
		return SV{V: TV{ts.Eq(a, b)}, T: boolT}, nil
	case "!=":
		return SV{V: TV{ts.Neq(a, b)}, T: boolT}, nil
	case "<":
		return SV{V: TV{ts.Lt(a, b)}, T: boolT}, nil
	case "<=":
		return SV{V: TV{ts.Le(a, b)}, T: boolT}, nil
	case ">":
		return SV{V: TV{ts.Gt(a, b)}, T: boolT}, nil
	case ">=":
		return SV{V: TV{ts.Ge(a, b)}, T: boolT}, nil
	case "+":
		return SV{V: TV{ts.Add(a, b)}, T: rt}, nil
	case "-":
		return SV{V: TV{ts.Sub(a, b)}, T: rt}, nil
	case "*":
		return SV{V: TV{ts.Mul(a, b)}, T: rt}, nil
	case "/":
		if a.Sort == SReal {
			return SV{V: TV{ts.RealDiv(a, b)}, T: rt}, nil
		}
		return SV{V: TV{ts.DivEuclid(a, b)}, T: rt}, nil
	case "%":
		return SV{V: TV{ts.ModEuclid(a, b)}, T: rt}, nil
	case "&":
		return SV{V: TV{ex.band(a, b)}, T: rt}, nil
	case "|":
		return SV{V: TV{ts.Sub(ts.Add(a, b), ex.band(a, b))}, T: rt}, nil
	case "^":
		return SV{V: TV{ts.Sub(ts.Add(a, b), ts.Mul(ts.Int(2), ex.band(a, b)))}, T: rt}, nil
	case "&^":
		return SV{V: TV{ts.Sub(a, ex.band(a, b))}, T: rt}, nil
	case "<<":
		if b.IsLit() {
			return SV{V: TV{ts.Mul(a, ts.IntBig(new(big.Int).Lsh(big.NewInt(1), uint(b.Int.Int64()))))}, T: rt}, nil
		}
		return SV{V: TV{ts.Mul(a, ex.pow2(b))}, T: rt}, nil
	case ">>":
		if b.IsLit() {
			return SV{V: TV{ts.DivEuclid(a, ts.IntBig(new(big.Int).Lsh(big.NewInt(1), uint(b.Int.Int64()))))}, T: rt}, nil
		}
		return SV{V: TV{ts.DivEuclid(a, ex.pow2(b))}, T: rt}, nil
	}
	return SV{}, fmt.Errorf("unknown operator %s", e.Name)
}

// structOf returns the struct type reached from t through at most one pointer.
func structOf(t types.Type) (types.Type, bool) {
	if t == nil {
		return nil, false
	}
	if p := derefType(t); p != nil {
		t = p
	}
	if _, ok := t.Underlying().(*types.Struct); ok {
		return t, true
	}
	return nil, false
}

// evalAddr evaluates &e: a pointer value.
func (c *EvalCtx) evalAddr(e *SExpr) (SV, error) {
	ex := c.ex
	switch e.Kind {
	case "field":
		base, err := c.eval(e.Args[0])
		if err != nil {
			return SV{}, err
		}
		return c.fieldPointer(base, e.Name, e)
	case "unary":
		if e.Name == "*" {
			return c.eval(e.Args[0])
		}
	case "ident":
		// address of a heap-allocated local
		if v, ok := c.env["&"+e.Name]; ok {
			return v, nil
		}
	case "index":
		base, err := c.eval(e.Args[0])
		if err != nil {
			return SV{}, err
		}
		idx, _, err := c.evalTerm(e.Args[1])
		if err != nil {
			return SV{}, err
		}
		if st, ok := base.T.Underlying().(*types.Slice); ok && base.T != nil {
			tv := base.V.(TV)
			es := ex.tm.SortOf(st.Elem())
			arr := ex.ts.SelectField(ex.tm.slice, 0, tv.T)
			off := ex.ts.SelectField(ex.tm.slice, 1, tv.T)
			return SV{V: Loc{Key: ElemKey(es), Idx: arr, Sort: SArray(SInt, es), Path: []PathStep{{Index: ex.ts.Add(off, idx)}}}, T: types.NewPointer(st.Elem())}, nil
		}
	}
	return SV{}, fmt.Errorf("cannot take the address of %s", e)
}

// fieldPointer computes the pointer to base.name following embedded fields.
func (c *EvalCtx) fieldPointer(base SV, name string, e *SExpr) (SV, error) {
	ex := c.ex
	stype, ok := structOf(base.T)
	if !ok {
		return SV{}, fmt.Errorf("%s: selector base is not a struct (type %v)", e, base.T)
	}
	var pkg *types.Package
	if c.pkg != nil {
		pkg = c.pkg.Types
	}
	if n, ok := types.Unalias(stype).(*types.Named); ok && n.Obj().Pkg() != nil {
		pkg = n.Obj().Pkg() // allow access to unexported fields of the type's package
	}
	obj, index, _ := types.LookupFieldOrMethod(stype, true, pkg, name)
	fld, isField := obj.(*types.Var)
	if !isField || fld == nil {
		return SV{}, fmt.Errorf("%s: no field %s in %s", e, name, shortType(stype))
	}
	cur := base.V
	curT := stype
	// base may be a struct value (datatype) rather than a pointer
	if derefType(base.T) == nil {
		tv, ok := base.V.(TV)
		if !ok {
			return SV{}, fmt.Errorf("%s: struct value expected", e)
		}
		// navigate inside the value; return the value wrapped as pseudo pointer
		t := tv.T
		for _, i := range index {
			su := curT.Underlying().(*types.Struct)
			if _, isT := ex.tm.isTargetStruct(curT); !isT {
				return SV{}, fmt.Errorf("%s: field of opaque struct value", e)
			}
			dt := ex.tm.structDT(curT)
			t = ex.ts.SelectField(dt, i, t)
			curT = su.Field(i).Type()
			if p := derefType(curT); p != nil && len(index) > 1 {
				// embedded pointer: continue through the heap
				rest, err := c.fieldPointer(SV{V: TV{t}, T: curT}, name, e)
				return rest, err
			}
		}
		return SV{V: valueBox{t}, T: curT}, nil
	}
	for k, i := range index {
		su := curT.Underlying().(*types.Struct)
		cur = ex.fieldAddr(c.st, cur, curT, i)
		ft := su.Field(i).Type()
		if k < len(index)-1 {
			// embedded field: may be a pointer (load it) or a struct (sub-object)
			if p := derefType(ft); p != nil {
				cur = ex.load(c.st, cur, ft)
				curT = p
			} else {
				curT = ft
			}
		} else {
			curT = ft
		}
	}
	return SV{V: cur, T: types.NewPointer(curT)}, nil
}

// valueBox marks a term that is a field value selected out of a struct value
// (no address exists).
type valueBox struct{ T *Term }

func (c *EvalCtx) evalField(e *SExpr) (SV, error) {
	ex := c.ex
	// qualified identifier pkg.Name?
	if e.Args[0].Kind == "ident" {
		if _, isVar := c.env[e.Args[0].Name]; !isVar {
			if tv, err := c.goEval(e.Args[0].Name + "." + e.Name); err == nil {
				if sv, ok := c.constValue(tv); ok {
					return sv, nil
				}
				// package-level variable of an imported package: the same
				// cell the executor reads through *ssa.Global
				if obj := c.importedVar(e.Args[0].Name, e.Name); obj != nil {
					key := "global!" + obj.Pkg().Path() + "." + e.Name
					addr := ex.ts.Const(smtIdent(key), SInt)
					return SV{V: ex.load(c.st, TV{addr}, obj.Type()), T: obj.Type()}, nil
				}
			}
		}
	}
	base, err := c.eval(e.Args[0])
	if err != nil {
		return SV{}, err
	}
	// ghost field?
	if stype, ok := structOf(base.T); ok {
		gk := typeKey(stype) + "." + e.Name
		if g, ok := ex.prog.Contracts.GhostFields[gk]; ok {
			obj, ok := ex.reifyAny(base.V)
			if !ok {
				return SV{}, fmt.Errorf("%s: ghost field of a non-reference", e)
			}
			arr := ex.heapGet(c.st, "G:"+gk, SArray(SInt, ghostSort(g.Sort)))
			return SV{V: TV{ex.ts.Select(arr, obj)}}, nil
		}
	}
	p, err := c.fieldPointer(base, e.Name, e)
	if err != nil {
		return SV{}, err
	}
	if vb, ok := p.V.(valueBox); ok {
		return SV{V: TV{vb.T}, T: p.T}, nil
	}
	ft := derefType(p.T)
	_, isTargetStruct := ex.tm.isTargetStruct(ft)
	valueLike := false
	if _, isStruct := ft.Underlying().(*types.Struct); isStruct && !isTargetStruct {
		// external struct types with value-receiver methods (time.Time,
		// digest.Digest) are opaque values; those with pointer-receiver
		// methods only (sync.Mutex, atomic.Uint64) are objects
		valueLike = types.NewMethodSet(ft).Len() > 0 || types.NewMethodSet(types.NewPointer(ft)).Len() == 0
	}
	if _, isStruct := ft.Underlying().(*types.Struct); isStruct && !valueLike {
		// struct-typed field (also of an external type such as sync.Mutex):
		// denote it by its address
		if l, ok := p.V.(Loc); ok {
			if t, ok := ex.reify(l); ok {
				return SV{V: TV{t}, T: p.T}, nil
			}
		}
		return SV{V: p.V, T: p.T}, nil
	}
	return SV{V: ex.load(c.st, p.V, ft), T: ft}, nil
}

func (c *EvalCtx) evalIndex(e *SExpr) (SV, error) {
	ex := c.ex
	ts := ex.ts
	// ghost map access name[key]
	if e.Args[0].Kind == "ident" {
		if g, ok := ex.prog.Contracts.GhostMaps[e.Args[0].Name]; ok {
			if _, shadow := c.env[e.Args[0].Name]; !shadow {
				return c.ghostSelect(g, e.Args[1])
			}
		}
	}
	base, err := c.eval(e.Args[0])
	if err != nil {
		return SV{}, err
	}
	idx, _, err := c.evalTerm(e.Args[1])
	if err != nil {
		return SV{}, err
	}
	if base.T == nil {
		// a ghost row (SMT array)
		if tv, ok := base.V.(TV); ok && tv.T.Sort.IsArray() && tv.T.Sort.Args[0] == idx.Sort {
			return SV{V: TV{ts.Select(tv.T, idx)}}, nil
		}
		if tv, ok := base.V.(TV); ok && tv.T.Sort.IsArray() && tv.T.Sort.Args[0] == SInt && idx.Sort != SInt {
			// a key that is a structured value in this configuration (its
			// package is among the loaded ones): index by an injective
			// encoding of the value
			enc := ex.uf("keyenc!"+smtIdent(idx.Sort.String()), SInt, idx)
			dec := ex.uf("keydec!"+smtIdent(idx.Sort.String()), idx.Sort, enc)
			ex.assume(ts.True(), ts.Eq(dec, idx))
			return SV{V: TV{ts.Select(tv.T, enc)}}, nil
		}
		return SV{}, fmt.Errorf("%s: untyped index base", e)
	}
	bt := base.T
	if p := derefType(bt); p != nil {
		if _, ok := p.Underlying().(*types.Array); ok {
			// pointer to array: load the array value
			base = SV{V: ex.load(c.st, base.V, p), T: p}
			bt = p
		}
	}
	switch t := bt.Underlying().(type) {
	case *types.Slice:
		tv, ok := base.V.(TV)
		if !ok {
			return SV{}, fmt.Errorf("%s: slice value expected", e)
		}
		es := ex.tm.SortOf(t.Elem())
		el := ex.heapGet(c.st, ElemKey(es), SArray(SInt, SArray(SInt, es)))
		arr := ts.SelectField(ex.tm.slice, 0, tv.T)
		ex.arrIs(arr, t.Elem())
		off := ts.SelectField(ex.tm.slice, 1, tv.T)
		v := ts.Select(ts.Select(el, arr), ts.Add(off, idx))
		ex.assumeRange(c.st.PC, v, t.Elem())
		return SV{V: TV{v}, T: t.Elem()}, nil
	case *types.Array:
		tv, ok := base.V.(TV)
		if !ok {
			return SV{}, fmt.Errorf("%s: array value expected", e)
		}
		return SV{V: TV{ts.Select(tv.T, idx)}, T: t.Elem()}, nil
	case *types.Map:
		m, ok := ex.reifyAny(base.V)
		if !ok {
			return SV{}, fmt.Errorf("%s: map value expected", e)
		}
		ks, vs := ex.mapSorts(t)
		dom := ex.heapGet(c.st, MapDomKey(ks, t), SArray(SInt, SArray(ks, SBool)))
		val := ex.heapGet(c.st, MapValKey(ks, vs, t), SArray(SInt, SArray(ks, vs)))
		in := ts.And(ts.Neq(m, ts.Int(0)), ts.Select(ts.Select(dom, m), idx))
		return SV{V: TV{ts.Ite(in, ts.Select(ts.Select(val, m), idx), ex.tm.zeroSort(vs))}, T: t.Elem()}, nil
	}
	return SV{}, fmt.Errorf("%s: cannot index %s", e, shortType(bt))
}

func (c *EvalCtx) ghostSelect(g *GhostMapDecl, keyE *SExpr) (SV, error) {
	k, _, err := c.evalTerm(keyE)
	if err != nil {
		return SV{}, err
	}
	arr := c.ex.heapGet(c.st, "G:"+g.Name, SArray(ghostSort(g.Key), ghostSort(g.Val)))
	if k.Sort != ghostSort(g.Key) {
		return SV{}, fmt.Errorf("ghost map %s: key sort %s", g.Name, k.Sort)
	}
	return SV{V: TV{c.ex.ts.Select(arr, k)}}, nil
}

func (c *EvalCtx) evalCall(e *SExpr) (SV, error) {
	ex := c.ex
	ts := ex.ts
	boolT := types.Typ[types.Bool]
	switch e.Name {
	case "old":
		if len(e.Args) != 1 {
			return SV{}, fmt.Errorf("old() takes one argument")
		}
		// heap reads go to the old state; parameters denote their entry
		// values, locals and bound variables their current values
		env := c.env
		if c.oldEnv != nil {
			env = map[string]SV{}
			for k, v := range c.env {
				env[k] = v
			}
			for k, v := range c.oldEnv {
				env[k] = v
			}
		}
		sub := c.with(c.old, env)
		sub.oldEnv = nil
		return sub.eval(e.Args[0])
	case "len", "cap":
		sv, err := c.eval(e.Args[0])
		if err != nil {
			return SV{}, err
		}
		if sv.T == nil {
			return SV{}, fmt.Errorf("len of untyped value")
		}
		t := sv.T
		if p := derefType(t); p != nil {
			if _, ok := p.Underlying().(*types.Array); ok {
				t = p
			}
		}
		switch u := t.Underlying().(type) {
		case *types.Slice:
			tv := sv.V.(TV)
			i := 2
			if e.Name == "cap" {
				i = 3
			}
			return SV{V: TV{ts.SelectField(ex.tm.slice, i, tv.T)}, T: types.Typ[types.Int]}, nil
		case *types.Map:
			m, _ := ex.reifyAny(sv.V)
			ex.mapIs(m, u)
			card := ex.heapGet(c.st, MapCardKey, SArray(SInt, SInt))
			return SV{V: TV{ts.Ite(ts.Eq(m, ts.Int(0)), ts.Int(0), ts.Select(card, m))}, T: types.Typ[types.Int]}, nil
		case *types.Array:
			return SV{V: TV{ts.Int(u.Len())}, T: types.Typ[types.Int]}, nil
		case *types.Basic:
			tv := sv.V.(TV)
			return SV{V: TV{ex.uf("strlen", SInt, tv.T)}, T: types.Typ[types.Int]}, nil
		}
		return SV{}, fmt.Errorf("len of %s", shortType(t))
	case "held", "rheld":
		l, _, err := c.evalTerm(e.Args[0])
		if err != nil {
			return SV{}, err
		}
		arr := ex.heapGet(c.st, "G:"+e.Name, SArray(SInt, SInt))
		return SV{V: TV{ts.Select(arr, l)}}, nil
	case "closed":
		l, _, err := c.evalTerm(e.Args[0])
		if err != nil {
			return SV{}, err
		}
		arr := ex.heapGet(c.st, "G:closed", SArray(SInt, SBool))
		return SV{V: TV{ts.Select(arr, l)}, T: boolT}, nil
	case "as":
		// as(x, T): the interface value x viewed as a value of (pointer) type T;
		// meaningful where typeis(x, T) holds
		if len(e.Args) != 2 {
			return SV{}, fmt.Errorf("as takes two arguments")
		}
		v, _, err := c.evalTerm(e.Args[0])
		if err != nil {
			return SV{}, err
		}
		ty, err := c.resolveType(e.Args[1].String())
		if err != nil {
			return SV{}, err
		}
		if ty == nil || !isPointerLike(ty) {
			return SV{}, fmt.Errorf("as: %s is not a pointer-like type", e.Args[1])
		}
		return SV{V: TV{v}, T: ty}, nil
	case "isnew":
		// isnew(x): object x was allocated by this call (it did not exist at entry)
		if len(e.Args) != 1 {
			return SV{}, fmt.Errorf("isnew takes one argument")
		}
		x, xt, err := c.evalTerm(e.Args[0])
		if err != nil {
			return SV{}, err
		}
		if x.Sort != SInt {
			return SV{}, fmt.Errorf("isnew wants a reference")
		}
		var wantEl types.Type
		if xt != nil {
			wantEl = derefType(xt)
		}
		// one of the objects this execution allocated itself (objects that
		// other threads created meanwhile are not "new" in this sense)
		var alts []*Term
		for _, a := range ex.ownAllocs {
			if wantEl != nil {
				// only objects of the very type x points to can be x
				at, known := ex.ownAllocType[a]
				if !known || typeKey(at) != typeKey(wantEl) {
					continue
				}
			}
			alts = append(alts, ts.Eq(x, a))
		}
		if len(alts) == 0 {
			return SV{V: TV{ts.False()}, T: boolT}, nil
		}
		return SV{V: TV{ts.And(ts.Neq(x, ts.Int(0)), ts.Or(alts...))}, T: boolT}, nil
	case "samearray":
		// samearray(s, t): slices s and t share their backing array
		if len(e.Args) != 2 {
			return SV{}, fmt.Errorf("samearray takes two arguments")
		}
		s, _, err := c.evalTerm(e.Args[0])
		if err != nil {
			return SV{}, err
		}
		t, _, err := c.evalTerm(e.Args[1])
		if err != nil {
			return SV{}, err
		}
		if s.Sort.Name != "Slice" || t.Sort.Name != "Slice" {
			return SV{}, fmt.Errorf("samearray wants slices")
		}
		return SV{V: TV{ts.Eq(ts.SelectField(ex.tm.slice, 0, s), ts.SelectField(ex.tm.slice, 0, t))}, T: boolT}, nil
	case "suffixof":
		// suffixof(s, t, k): slice s is t[k:] (same backing array)
		if len(e.Args) != 3 {
			return SV{}, fmt.Errorf("suffixof takes three arguments")
		}
		s, _, err := c.evalTerm(e.Args[0])
		if err != nil {
			return SV{}, err
		}
		t, _, err := c.evalTerm(e.Args[1])
		if err != nil {
			return SV{}, err
		}
		k, _, err := c.evalTerm(e.Args[2])
		if err != nil {
			return SV{}, err
		}
		if s.Sort.Name != "Slice" || t.Sort.Name != "Slice" {
			return SV{}, fmt.Errorf("suffixof wants slices")
		}
		sl := ex.tm.slice
		return SV{V: TV{ts.And(
			ts.Eq(ts.SelectField(sl, 0, s), ts.SelectField(sl, 0, t)),
			ts.Eq(ts.SelectField(sl, 1, s), ts.Add(ts.SelectField(sl, 1, t), k)),
			ts.Eq(ts.SelectField(sl, 2, s), ts.Sub(ts.SelectField(sl, 2, t), k)),
			ts.Le(ts.Int(0), k), ts.Le(k, ts.SelectField(sl, 2, t)))}, T: boolT}, nil
	case "unchanged":
		// unchanged(): nothing in the (modelled) heap differs from the old state:
		// no store and no call with side effects happened on this path. Lock and
		// allocation bookkeeping is excluded.
		var conds []*Term
		for _, t := range ex.heapDiff(c.st, c.old) {
			conds = append(conds, t)
		}
		sortTerms(conds)
		return SV{V: TV{ts.And(conds...)}, T: boolT}, nil
	case "ite":
		if len(e.Args) != 3 {
			return SV{}, fmt.Errorf("ite takes three arguments")
		}
		cond, err := c.evalBool(e.Args[0])
		if err != nil {
			return SV{}, err
		}
		a, at, err := c.evalTerm(e.Args[1])
		if err != nil {
			return SV{}, err
		}
		b, _, err := c.evalTerm(e.Args[2])
		if err != nil {
			return SV{}, err
		}
		if a.Sort != b.Sort {
			return SV{}, fmt.Errorf("ite branches have different sorts")
		}
		return SV{V: TV{ts.Ite(cond, a, b)}, T: at}, nil
	case "min", "max":
		a, at, err := c.evalTerm(e.Args[0])
		if err != nil {
			return SV{}, err
		}
		b, _, err := c.evalTerm(e.Args[1])
		if err != nil {
			return SV{}, err
		}
		if e.Name == "min" {
			return SV{V: TV{ts.Ite(ts.Lt(b, a), b, a)}, T: at}, nil
		}
		return SV{V: TV{ts.Ite(ts.Lt(a, b), b, a)}, T: at}, nil
	case "typeis":
		// typeis(x, T): dynamic type of interface value x is T
		v, _, err := c.evalTerm(e.Args[0])
		if err != nil {
			return SV{}, err
		}
		ty, err := c.resolveType(e.Args[1].String())
		if err != nil {
			return SV{}, err
		}
		return SV{V: TV{ts.And(ts.Neq(v, ts.Int(0)), ts.Eq(ex.uf("dyntype", SInt, v), ex.typeID(ty)))}, T: boolT}, nil
	case "int", "uint64", "int64", "uint32", "uint", "int32", "mathint":
		return c.eval(e.Args[0])
	case "uf":
		// uf("name", args...): uninterpreted function over ints
		if len(e.Args) < 1 || e.Args[0].Kind != "str" {
			return SV{}, fmt.Errorf("uf wants a name")
		}
		var args []*Term
		for _, a := range e.Args[1:] {
			t, _, err := c.evalTerm(a)
			if err != nil {
				return SV{}, err
			}
			args = append(args, t)
		}
		return SV{V: TV{ex.uf("spec!"+strings.Trim(e.Args[0].Val, "\""), SInt, args...)}}, nil
	case "ufb":
		if len(e.Args) < 1 || e.Args[0].Kind != "str" {
			return SV{}, fmt.Errorf("ufb wants a name")
		}
		var args []*Term
		for _, a := range e.Args[1:] {
			t, _, err := c.evalTerm(a)
			if err != nil {
				return SV{}, err
			}
			args = append(args, t)
		}
		return SV{V: TV{ex.uf("specb!"+strings.Trim(e.Args[0].Val, "\""), SBool, args...)}, T: boolT}, nil
	}
	// ghost map used as a function
	if g, ok := ex.prog.Contracts.GhostMaps[e.Name]; ok && len(e.Args) == 1 {
		return c.ghostSelect(g, e.Args[0])
	}
	// spec predicate
	if pd, ok := ex.prog.Contracts.Preds[e.Name]; ok {
		if len(e.Args) != len(pd.Params) {
			return SV{}, fmt.Errorf("pred %s wants %d arguments", pd.Name, len(pd.Params))
		}
		if c.depth > 20 {
			return SV{}, fmt.Errorf("pred recursion too deep")
		}
		env := map[string]SV{}
		pctx := &EvalCtx{ex: ex, st: c.st, old: c.old, pkg: pd.Pkg, fnPos: token.NoPos, depth: c.depth + 1}
		for i, p := range pd.Params {
			sv, err := c.eval(e.Args[i])
			if err != nil {
				return SV{}, err
			}
			ty, err := pctx.resolveType(p.Type)
			if err != nil {
				return SV{}, err
			}
			if ty != nil {
				sv.T = ty
			}
			env[p.Name] = sv
		}
		pctx.env = env
		return pctx.eval(pd.Body)
	}
	return SV{}, fmt.Errorf("unknown function or predicate %s", e.Name)
}

// havocTarget havocs the location(s) denoted by a modifies target.
func (c *EvalCtx) havocTarget(e *SExpr) error {
	ex := c.ex
	ts := ex.ts
	switch e.Kind {
	case "ident":
		if _, ok := ex.prog.Contracts.GhostMaps[e.Name]; ok {
			ex.havocKey(c.hs(),"G:"+e.Name)
			if e.Name == "held" || e.Name == "rheld" {
				ex.heldHavocked = true
			}
			return nil
		}
	case "index":
		if e.Args[0].Kind == "ident" {
			if g, ok := ex.prog.Contracts.GhostMaps[e.Args[0].Name]; ok {
				k, _, err := c.evalTerm(e.Args[1])
				if err != nil {
					return err
				}
				arr := ex.heapGet(c.hs(), "G:"+g.Name, SArray(ghostSort(g.Key), ghostSort(g.Val)))
				ex.heapSet(c.hs(), "G:"+g.Name, ts.Store(arr, k, ts.Fresh("g!"+g.Name, ghostSort(g.Val))))
				seen := false
				for _, t := range ex.ghostTouched[g.Name] {
					if t == k {
						seen = true
					}
				}
				if !seen {
					ex.ghostTouched[g.Name] = append(ex.ghostTouched[g.Name], k)
				}
				return nil
			}
		}
	case "call":
		switch e.Name {
		case "all":
			// every field of the object
			sv, err := c.eval(e.Args[0])
			if err != nil {
				return err
			}
			stype, ok := structOf(sv.T)
			if !ok {
				return fmt.Errorf("all(): not a struct pointer")
			}
			return c.havocObject(sv.V, stype)
		case "elems":
			sv, err := c.eval(e.Args[0])
			if err != nil {
				return err
			}
			st, ok := sv.T.Underlying().(*types.Slice)
			if !ok {
				return fmt.Errorf("elems(): not a slice")
			}
			es := ex.tm.SortOf(st.Elem())
			key := ElemKey(es)
			el := ex.heapGet(c.hs(), key, SArray(SInt, SArray(SInt, es)))
			arr := ts.SelectField(ex.tm.slice, 0, sv.V.(TV).T)
			ex.heapSet(c.hs(), key, ts.Store(el, arr, ts.Fresh("elems", SArray(SInt, es))))
			return nil
		case "key":
			// key("F:pkg.T.f"): whole heap key
			ex.havocKey(c.hs(),strings.Trim(e.Args[0].Val, "\""))
			return nil
		}
	case "field":
		// T.f with T a type name: whole field
		if e.Args[0].Kind == "ident" {
			if _, isVar := c.env[e.Args[0].Name]; !isVar {
				if ty, err := c.resolveType(e.Args[0].Name); err == nil && ty != nil {
					if su, ok := ty.Underlying().(*types.Struct); ok {
						for i := 0; i < su.NumFields(); i++ {
							if su.Field(i).Name() == e.Name {
								ws := KeySet{}
								ft := su.Field(i).Type()
								if _, isT := ex.tm.isTargetStruct(ft); isT {
									ex.prog.Pre.mu.Lock()
									ex.prog.Pre.structKeys(ft, ws)
									ex.prog.Pre.mu.Unlock()
								} else {
									key := ex.tm.FieldKey(ty, i)
									if ex.prog.Pre.AddrTaken[key] {
										ws[ex.tm.MemKey(ft)] = true
									} else {
										ws[key] = true
									}
								}
								for k := range ws {
									ex.havocKey(c.hs(),k)
								}
								return nil
							}
						}
						return fmt.Errorf("type %s has no field %s", e.Args[0].Name, e.Name)
					}
				}
			}
		}
	}
	// a single location
	p, err := c.evalAddr(e)
	if err != nil {
		return err
	}
	el := derefType(p.T)
	if el == nil {
		return fmt.Errorf("modifies target %s is not addressable", e)
	}
	if stype, ok := structOf(p.T); ok {
		if _, isT := ex.tm.isTargetStruct(stype); isT {
			return c.havocObject(p.V, stype)
		}
	}
	ex.store(c.hs(), p.V, el, ex.fresh(c.hs(), "mod", el))
	return nil
}

func (c *EvalCtx) havocObject(ptr Value, stype types.Type) error {
	ex := c.ex
	su := stype.Underlying().(*types.Struct)
	for i := 0; i < su.NumFields(); i++ {
		ft := su.Field(i).Type()
		fa := ex.fieldAddr(c.st, ptr, stype, i)
		if _, isT := ex.tm.isTargetStruct(ft); isT {
			if err := c.havocObject(fa, ft); err != nil {
				return err
			}
			continue
		}
		ex.store(c.hs(), fa, ft, ex.fresh(c.hs(), "mod", ft))
	}
	return nil
}

func (c *EvalCtx) applyGhost(g GhostUpdate) error {
	ex := c.ex
	ts := ex.ts
	decl, ok := ex.prog.Contracts.GhostMaps[g.Map]
	if !ok {
		return fmt.Errorf("unknown ghost map %s", g.Map)
	}
	k, _, err := c.evalTerm(g.Key)
	if err != nil {
		return err
	}
	v, _, err := c.evalTerm(g.Value)
	if err != nil {
		return err
	}
	arr := ex.heapGet(c.st, "G:"+g.Map, SArray(ghostSort(decl.Key), ghostSort(decl.Val)))
	if g.Cond != nil {
		cond, err := c.evalBool(g.Cond)
		if err != nil {
			return err
		}
		v = ts.Ite(cond, v, ts.Select(arr, k))
	}
	ex.heapSet(c.st, "G:"+g.Map, ts.Store(arr, k, v))
	ex.ghostTouched[g.Map] = append(ex.ghostTouched[g.Map], k)
	return nil
}

// localEnv: names visible inside the function under verification at the
// current point: named cells (parameters, results, locals).
func (ex *Exec) localEnv(fr *Frame, st *State) map[string]SV {
	env := map[string]SV{}
	for name, cell := range fr.named {
		v, ok := st.Cells[cell]
		if !ok {
			continue
		}
		if strings.HasPrefix(name, "&") {
			env[name] = SV{V: v, T: cell.Type}
			el := derefType(cell.Type)
			env[name[1:]] = SV{V: ex.load(st, v, el), T: el}
			continue
		}
		if _, clash := env[name]; !clash {
			env[name] = SV{V: v, T: cell.Type}
		}
		// several variables of this name (disjoint or nested scopes): the
		// latest declared one that exists on the path at hand
		if all := fr.namedAll[name]; len(all) > 1 {
			var cur *Term
			okAll := true
			for _, c := range all {
				cv, present := st.Cells[c]
				tv, isTV := cv.(TV)
				if !present || !isTV || c.AllocPC == nil || !types.Identical(c.Type, cell.Type) {
					okAll = false
					break
				}
				if cur == nil {
					cur = tv.T
				} else if cur.Sort == tv.T.Sort {
					cur = ex.ts.Ite(c.AllocPC, tv.T, cur)
				} else {
					okAll = false
					break
				}
			}
			if okAll && cur != nil {
				env[name] = SV{V: TV{cur}, T: cell.Type}
			}
		}
	}
	// a name whose most recently declared variable does not exist on this
	// path (it is declared further down, or in another branch): the latest
	// declared one that does
	for name, all := range fr.namedAll {
		if _, have := env[name]; have {
			continue
		}
		for k := len(all) - 1; k >= 0; k-- {
			if v, present := st.Cells[all[k]]; present {
				env[name] = SV{V: v, T: all[k].Type}
				break
			}
		}
	}
	// free variables of closures: by name through their bindings
	for i, fv := range fr.fn.FreeVars {
		if i < len(fr.bind) {
			el := derefType(fv.Type())
			env[fv.Name()] = SV{V: ex.load(st, fr.bind[i], el), T: el}
		}
	}
	// variables that were merely renamed since the contracts were written
	aliasRenamed(fr.fn, env)
	return env
}

var _ = ssa.NaiveForm

func sortTerms(ts []*Term) {
	for i := 1; i < len(ts); i++ {
		for j := i; j > 0 && ts[j].ID < ts[j-1].ID; j-- {
			ts[j], ts[j-1] = ts[j-1], ts[j]
		}
	}
}

// heapDiff returns, per heap key whose term differs between cur and old, the
// condition "the contents of every pre-existing object are equal". Lock
// bookkeeping (held, rheld) is excluded.
func (ex *Exec) heapDiff(curSt, oldSt *State) map[string]*Term {
	ts := ex.ts
	out := map[string]*Term{}
	keys := map[string]bool{}
	for k := range curSt.Heap {
		keys[k] = true
	}
	for k := range oldSt.Heap {
		keys[k] = true
	}
	for k := range keys {
		if k == "G:held" || k == "G:rheld" {
			continue
		}
		var cur, old *Term
		if t, ok := curSt.Heap[k]; ok {
			cur = t
		}
		if t, ok := oldSt.Heap[k]; ok {
			old = t
		}
		if cur == nil && old == nil {
			continue
		}
		if cur == nil {
			cur = ex.initHeap(k, old.Sort)
		}
		if old == nil {
			old = ex.initHeap(k, cur.Sort)
		}
		if cur == old {
			continue
		}
		freshZero := false
		if strings.HasPrefix(k, "G:") {
			if g, ok := ex.prog.Contracts.GhostMaps[k[2:]]; ok && g.FreshZero {
				// reset for every newly allocated object: only the entries of
				// pre-existing objects belong to the old state
				freshZero = true
			}
		}
		if (strings.HasPrefix(k, "G:") && !freshZero) || cur.Sort.Args[0] != SInt {
			out[k] = ts.Eq(cur, old)
			continue
		}
		// objects allocated by this call are not part of the old state:
		// compare the contents of pre-existing objects only
		r := ts.BoundVar("r", SInt)
		out[k] = ts.Forall([]*Term{r}, ts.Implies(
			ts.Le(ex.uf("alloctime", SInt, r), ts.Int(0)),
			ts.Eq(ts.Select(cur, r), ts.Select(old, r))))
	}
	return out
}
