package main

// Package groups: a property whose contracts live in packages that must not be
// analysed together (loading two packages makes each other's implementations of
// shared interfaces visible, which changes the inferred frames) lists further
// groups in "extra_groups"; each group is loaded and verified on its own and
// the obligations are pooled.

type groupRun struct {
	prog     *Program
	results  []*FuncResult
	obls     []*Obligation
	problems []string
}

func (cfg *PropConfig) groups() [][]string {
	out := [][]string{cfg.Packages}
	out = append(out, cfg.ExtraGroups...)
	return out
}

// runGroups verifies every package group. The error of the first group that
// does not load is returned.
func runGroups(id string, cfg *PropConfig, overlay map[string][]byte, outDir string, timeoutS int, second bool) ([]*groupRun, error) {
	var runs []*groupRun
	for gi, g := range cfg.groups() {
		p, err := LoadProgram(g, overlay)
		if err != nil {
			return nil, err
		}
		c := *cfg
		if gi > 0 {
			// the vacuity list names functions of the first group
			c.MustHave = nil
			c.Sweep = false
		}
		results, obls, problems := selectAndRun(p, id, &c, outDir, timeoutS, second)
		runs = append(runs, &groupRun{prog: p, results: results, obls: obls, problems: problems})
	}
	return runs, nil
}
