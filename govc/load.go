package main

// Loading of /repo packages (typed syntax, dependencies from export data) and
// SSA construction in naive form for the target packages only.

import (
	"fmt"
	"go/ast"
	"go/token"
	"go/types"
	"os"
	"path/filepath"
	"sort"
	"strings"

	"golang.org/x/tools/go/packages"
	"golang.org/x/tools/go/ssa"
	"golang.org/x/tools/go/ssa/ssautil"
)

const repoDir = "/repo"
const modPath = "github.com/buildbarn/bb-remote-execution"

type Program struct {
	Fset    *token.FileSet
	Pkgs    []*packages.Package
	SSA     *ssa.Program
	SSAPkgs []*ssa.Package
	// all functions (incl. anonymous, methods) of the target packages by full name
	Funcs     map[string]*ssa.Function
	FuncList  []*ssa.Function
	Contracts *ContractSet
	Pre       *Prepass
	Overlay   map[string][]byte
}

// LoadProgram loads the given package patterns (relative to /repo, e.g.
// "./pkg/cleaner") with the verif build tag.
func LoadProgram(patterns []string, overlay map[string][]byte) (*Program, error) {
	fset := token.NewFileSet()
	cfg := &packages.Config{
		Mode: packages.NeedName | packages.NeedFiles | packages.NeedCompiledGoFiles | packages.NeedImports |
			packages.NeedTypes | packages.NeedTypesSizes | packages.NeedSyntax | packages.NeedTypesInfo,
		Dir:        repoDir,
		Fset:       fset,
		BuildFlags: []string{"-tags=verif"},
		Overlay:    overlay,
		Env:        append(os.Environ(), "GOFLAGS=-mod=mod", "GOPROXY=off", "GOSUMDB=off", "GOTOOLCHAIN=local"),
		ParseFile: nil,
	}
	pkgs, err := packages.Load(cfg, patterns...)
	if err != nil {
		return nil, err
	}
	var errs []string
	for _, p := range pkgs {
		for _, e := range p.Errors {
			errs = append(errs, e.Error())
		}
	}
	if len(errs) > 0 {
		return nil, fmt.Errorf("package load errors:\n%s", strings.Join(errs, "\n"))
	}
	sort.Slice(pkgs, func(i, j int) bool { return pkgs[i].PkgPath < pkgs[j].PkgPath })
	prog, spkgs := ssautil.Packages(pkgs, ssa.NaiveForm|ssa.GlobalDebug)
	for _, sp := range spkgs {
		if sp != nil {
			sp.Build()
		}
	}
	p := &Program{Fset: fset, Pkgs: pkgs, SSA: prog, SSAPkgs: spkgs, Funcs: map[string]*ssa.Function{}, Overlay: overlay}
	targets := map[*ssa.Package]bool{}
	for _, sp := range spkgs {
		if sp != nil {
			targets[sp] = true
		}
	}
	all := ssautil.AllFunctions(prog)
	// generic functions and methods of generic types are not reachable through
	// method sets; add them (and their anonymous functions) explicitly
	var addRec func(fn *ssa.Function)
	addRec = func(fn *ssa.Function) {
		if fn == nil || all[fn] {
			return
		}
		all[fn] = true
		for _, af := range fn.AnonFuncs {
			addRec(af)
		}
	}
	for _, pk := range pkgs {
		if pk.Types == nil {
			continue
		}
		sc := pk.Types.Scope()
		for _, name := range sc.Names() {
			switch obj := sc.Lookup(name).(type) {
			case *types.Func:
				addRec(prog.FuncValue(obj))
			case *types.TypeName:
				if named, ok := obj.Type().(*types.Named); ok {
					for i := 0; i < named.NumMethods(); i++ {
						addRec(prog.FuncValue(named.Method(i)))
					}
				}
			}
		}
	}
	for fn := range all {
		if fn.Blocks == nil {
			continue
		}
		pkg := fn.Package()
		if pkg == nil && fn.Origin() != nil {
			pkg = fn.Origin().Package()
		}
		if pkg == nil {
			// anonymous function or wrapper: look at the parent chain
			q := fn
			for q.Parent() != nil {
				q = q.Parent()
			}
			pkg = q.Package()
		}
		if pkg == nil || !targets[pkg] {
			continue
		}
		if fn.Synthetic != "" && !strings.HasPrefix(fn.Synthetic, "package initializer") && fn.Origin() == nil {
			// wrappers, thunks, bound method closures: skip (they only forward)
			continue
		}
		name := FuncName(fn)
		if _, dup := p.Funcs[name]; dup {
			continue
		}
		p.Funcs[name] = fn
		p.FuncList = append(p.FuncList, fn)
	}
	sort.Slice(p.FuncList, func(i, j int) bool { return FuncName(p.FuncList[i]) < FuncName(p.FuncList[j]) })
	cs, err := LoadContracts(p)
	if err != nil {
		return nil, err
	}
	p.Contracts = cs
	p.Pre = RunPrepass(p)
	return p, nil
}

// FuncName gives the short name used in contracts and obligation ids:
// "<pkgrel>.(*T).M", "<pkgrel>.F", "<pkgrel>.F$1".
func FuncName(fn *ssa.Function) string {
	s := fn.String()
	s = strings.ReplaceAll(s, modPath+"/", "")
	return s
}

func relPkg(path string) string {
	return strings.TrimPrefix(path, modPath+"/")
}

func (p *Program) IsTargetPkg(pkg *types.Package) bool {
	if pkg == nil {
		return false
	}
	for _, q := range p.Pkgs {
		if q.Types == pkg || q.PkgPath == pkg.Path() {
			return true
		}
	}
	return false
}

func (p *Program) PkgByPath(path string) *packages.Package {
	for _, q := range p.Pkgs {
		if q.PkgPath == path {
			return q
		}
	}
	return nil
}

func (p *Program) Position(pos token.Pos) string {
	if !pos.IsValid() {
		return "?"
	}
	ps := p.Fset.Position(pos)
	rel, err := filepath.Rel(repoDir, ps.Filename)
	if err != nil {
		rel = ps.Filename
	}
	return fmt.Sprintf("%s:%d", rel, ps.Line)
}

// contractFiles returns the //@ comment lines of every *_verif.go contract
// file of the loaded packages plus /verif/stubs/*.spec.
func (p *Program) contractSources() []contractSource {
	var out []contractSource
	for _, pkg := range p.Pkgs {
		for i, f := range pkg.Syntax {
			name := pkg.CompiledGoFiles[i]
			if !strings.HasSuffix(name, "_verif.go") {
				continue
			}
			// the file must be comment-only apart from the package clause
			onlyComments := len(f.Decls) == 0
			var lines []contractLine
			for _, cg := range f.Comments {
				for _, c := range cg.List {
					if strings.HasPrefix(c.Text, "//@") {
						lines = append(lines, contractLine{Text: strings.TrimPrefix(c.Text, "//@"), Pos: p.Position(c.Pos())})
					}
				}
			}
			out = append(out, contractSource{File: name, Pkg: pkg, Lines: lines, CommentOnly: onlyComments})
		}
	}
	stubs, _ := filepath.Glob("/verif/stubs/*.spec")
	sort.Strings(stubs)
	for _, s := range stubs {
		data, err := os.ReadFile(s)
		if err != nil {
			continue
		}
		var lines []contractLine
		for i, l := range strings.Split(string(data), "\n") {
			if strings.HasPrefix(strings.TrimSpace(l), "#") {
				continue
			}
			lines = append(lines, contractLine{Text: l, Pos: fmt.Sprintf("%s:%d", filepath.Base(s), i+1)})
		}
		out = append(out, contractSource{File: s, Lines: lines, CommentOnly: true, IsStub: true})
	}
	return out
}

type contractLine struct {
	Text string
	Pos  string
}
type contractSource struct {
	File        string
	Pkg         *packages.Package
	Lines       []contractLine
	CommentOnly bool
	IsStub      bool
}

var _ = ast.Inspect
