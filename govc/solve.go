package main

// Discharging obligations with an SMT solver portfolio.

import (
	"bytes"
	"context"
	"fmt"
	"os"
	"os/exec"
	"path/filepath"
	"strings"
	"sync"
	"time"
)

type SolverCfg struct {
	Name string
	Cmd  []string // file name appended
	Cvc5 bool
}

func solverList(timeoutS int) []SolverCfg {
	return []SolverCfg{
		{Name: "z3-5.1", Cmd: []string{"z3-new", fmt.Sprintf("-T:%d", timeoutS), "smt.random_seed=" + seedStr()}},
		{Name: "cvc5-1.0", Cmd: []string{"cvc5", fmt.Sprintf("--tlimit=%d", timeoutS*1000), "--seed=" + seedStr()}, Cvc5: true},
		{Name: "z3-4.8", Cmd: []string{"/usr/bin/z3", fmt.Sprintf("-T:%d", timeoutS), "smt.random_seed=" + seedStr()}},
	}
}

func seedStr() string {
	s := os.Getenv("VERIF_SEED")
	if s == "" {
		return "0"
	}
	for _, c := range s {
		if c < '0' || c > '9' {
			return "0"
		}
	}
	if len(s) > 9 {
		s = s[len(s)-9:]
	}
	return s
}

type solveOut struct {
	verdict string // sat unsat unknown error
	output  string
	secs    float64
}

func runSolver(cfg SolverCfg, file string, timeoutS int) solveOut {
	ctx, cancel := context.WithTimeout(context.Background(), time.Duration(timeoutS+5)*time.Second)
	defer cancel()
	args := append(append([]string{}, cfg.Cmd[1:]...), file)
	cmd := exec.CommandContext(ctx, cfg.Cmd[0], args...)
	var out bytes.Buffer
	cmd.Stdout = &out
	cmd.Stderr = &out
	t0 := time.Now()
	_ = cmd.Run()
	secs := time.Since(t0).Seconds()
	text := out.String()
	first := strings.TrimSpace(text)
	if i := strings.Index(first, "\n"); i >= 0 {
		first = strings.TrimSpace(first[:i])
	}
	switch first {
	case "sat", "unsat", "unknown":
		return solveOut{verdict: first, output: text, secs: secs}
	case "timeout":
		return solveOut{verdict: "unknown", output: text, secs: secs}
	}
	if ctx.Err() != nil {
		return solveOut{verdict: "unknown", output: "timeout\n" + text, secs: secs}
	}
	return solveOut{verdict: "error", output: text, secs: secs}
}

// Discharge decides one obligation. Queries are written under dir.
func (ex *Exec) Discharge(o *Obligation, dir string, timeoutS int, second bool) {
	ts := ex.ts
	asserts := append([]*Term{}, ex.assumes[:o.NAssume]...)
	if !o.MustBeSat {
		// quantified facts about lock bookkeeping (held, rheld, pile) only
		// matter to goals that talk about locks; for the others they are left
		// out (dropping assumptions is sound and keeps the queries decidable
		// in practice)
		lockSym := func(t *Term) bool {
			return ex.ts.Mentions(t, func(name string) bool {
				for _, g := range []string{"held", "rheld", "pile"} {
					if strings.Contains(name, "G_3a_"+g) || strings.HasPrefix(name, "g!"+g+"!") {
						return true
					}
				}
				return false
			})
		}
		if !lockSym(o.PC) && !lockSym(o.Cond) {
			kept := asserts[:0]
			for _, a := range asserts {
				if ex.ts.HasQuantifier(a) && lockSym(a) {
					continue
				}
				kept = append(kept, a)
			}
			asserts = kept
		}
	}
	asserts = append(asserts, o.PC)
	if !o.MustBeSat {
		asserts = append(asserts, ts.Not(o.Cond))
	}
	// trivial cases
	if !o.MustBeSat && (o.Cond.IsTrue() || o.PC.IsFalse()) {
		o.Status = "discharged"
		o.Solver = "trivial"
		return
	}
	base := filepath.Join(dir, sanitizeFile(o.ID))
	var verdicts []string
	if o.MustBeSat {
		// vacuity guard: refutation of the assumptions is what matters; one
		// solver with a short budget
		if timeoutS > 8 {
			timeoutS = 8
		}
		cfg := solverList(timeoutS)[0]
		script := ts.Script(asserts, ScriptOpts{Cvc5: cfg.Cvc5})
		file := base + "." + cfg.Name + ".smt2"
		_ = os.WriteFile(file, []byte(script), 0o644)
		o.Query = file
		r := runSolver(cfg, file, timeoutS)
		o.Seconds = r.secs
		o.Solver = cfg.Name
		switch r.verdict {
		case "unsat":
			o.Status = "failed"
			o.Output = "assumptions are contradictory (vacuous)"
		case "sat":
			o.Status = "discharged"
		default:
			o.Status = "discharged"
			o.Solver = "not-refuted"
		}
		return
	}
	try := func(cfg SolverCfg, getModel bool) solveOut {
		script := ts.Script(asserts, ScriptOpts{Cvc5: cfg.Cvc5, GetModel: getModel})
		file := base + "." + cfg.Name + ".smt2"
		_ = os.WriteFile(file, []byte(script), 0o644)
		r := runSolver(cfg, file, timeoutS)
		verdicts = append(verdicts, cfg.Name+"="+r.verdict)
		if o.Query == "" {
			o.Query = file
		}
		return r
	}
	solvers := solverList(timeoutS)
	finish := func(cfg SolverCfg, r solveOut) bool {
		o.Seconds += r.secs
		switch r.verdict {
		case "unsat":
			if o.MustBeSat {
				o.Status = "failed"
				o.Output = "assumptions are contradictory (vacuous)"
			} else {
				o.Status = "discharged"
			}
			o.Solver = cfg.Name
			return true
		case "sat":
			if o.MustBeSat {
				o.Status = "discharged"
			} else {
				o.Status = "failed"
				o.Model = r.output
			}
			o.Solver = cfg.Name
			return true
		}
		return false
	}
	r := try(solvers[0], true)
	if finish(solvers[0], r) {
		if second && o.Status == "discharged" && !o.MustBeSat {
			// thorough tier: a second solver family must agree
			r2 := try(solvers[1], false)
			o.Seconds += r2.secs
			if r2.verdict == "sat" {
				o.Status = "failed"
				o.Output = "solver disagreement: " + strings.Join(verdicts, " ")
			} else if r2.verdict == "unsat" {
				o.Solver += "+" + solvers[1].Name
			}
		}
		return
	}
	firstOut := r.output
	// race the others
	var wg sync.WaitGroup
	results := make([]solveOut, len(solvers))
	for i := 1; i < len(solvers); i++ {
		wg.Add(1)
		go func(i int) {
			defer wg.Done()
			results[i] = runSolverScript(ts, asserts, solvers[i], base, timeoutS)
		}(i)
	}
	wg.Wait()
	for i := 1; i < len(solvers); i++ {
		verdicts = append(verdicts, solvers[i].Name+"="+results[i].verdict)
	}
	for i := 1; i < len(solvers); i++ {
		if results[i].verdict == "unsat" || results[i].verdict == "sat" {
			if finish(solvers[i], results[i]) {
				return
			}
		}
	}
	if o.MustBeSat {
		// not refuted: the guard passes (satisfiability could not be confirmed)
		o.Status = "discharged"
		o.Solver = "not-refuted"
		return
	}
	o.Status = "unknown"
	o.Output = strings.Join(verdicts, " ") + "\n" + truncate(firstOut, 2000)
}

func runSolverScript(ts *TermStore, asserts []*Term, cfg SolverCfg, base string, timeoutS int) solveOut {
	script := ts.Script(asserts, ScriptOpts{Cvc5: cfg.Cvc5, GetModel: !cfg.Cvc5})
	file := base + "." + cfg.Name + ".smt2"
	_ = os.WriteFile(file, []byte(script), 0o644)
	return runSolver(cfg, file, timeoutS)
}

func truncate(s string, n int) string {
	if len(s) > n {
		return s[:n] + "..."
	}
	return s
}

func sanitizeFile(s string) string {
	var sb strings.Builder
	for _, r := range s {
		switch {
		case r >= 'a' && r <= 'z', r >= 'A' && r <= 'Z', r >= '0' && r <= '9', r == '.', r == '-', r == '_', r == '#', r == '@', r == '~':
			sb.WriteRune(r)
		default:
			sb.WriteByte('_')
		}
	}
	out := sb.String()
	if len(out) > 180 {
		out = out[:180]
	}
	return out
}
