package main

// Interpretation of individual SSA instructions.

import (
	"fmt"
	"go/token"
	"go/types"
	"math/big"

	"golang.org/x/tools/go/ssa"
)

func (ex *Exec) execInstr(fr *Frame, st *State, ins ssa.Instruction) {
	ts := ex.ts
	switch x := ins.(type) {
	case *ssa.DebugRef:
		return
	case *ssa.Phi:
		return // evaluated at block entry
	case *ssa.Alloc:
		el := derefType(x.Type())
		if !ex.prog.Pre.EscAlloc[x] {
			c, ok := fr.cells[x]
			if !ok {
				c = ex.newCell(x.Comment, el)
				fr.cells[x] = c
				if x.Comment != "" {
					// the most recently declared variable of a name shadows
					// earlier ones (execution follows source order)
					fr.named[x.Comment] = c
					c.AllocPC = st.PC
					if fr.namedAll == nil {
						fr.namedAll = map[string][]*Cell{}
					}
					fr.namedAll[x.Comment] = append(fr.namedAll[x.Comment], c)
				}
			}
			if _, isDS := el.(*types.Named); isDS && el.String() == "$ssa.deferStack" {
				st.Cells[c] = DeferStack{}
			} else if isDeferStack(el) {
				st.Cells[c] = DeferStack{}
			} else {
				st.Cells[c] = TV{ex.tm.ZeroOf(el)}
			}
			fr.vals[x] = Loc{Cell: c, Sort: sortOrInt(ex.tm, el)}
			return
		}
		// heap-allocated
		r := ex.freshObject(st, x.Comment)
		if ex.ownAllocType == nil {
			ex.ownAllocType = map[*Term]types.Type{}
		}
		ex.ownAllocType[r] = el
		ex.store(st, TV{r}, el, TV{ex.tm.ZeroOf(el)})
		if su, isStruct := types.Unalias(el).Underlying().(*types.Struct); isStruct {
			if _, isT := ex.tm.isTargetStruct(el); !isT && su.NumFields() <= 32 {
				// a new object of a struct type from another package: its
				// (opaque) field cells start out zero as well
				for i := 0; i < su.NumFields(); i++ {
					ft := su.Field(i).Type()
					if _, nested := types.Unalias(ft).Underlying().(*types.Struct); nested {
						continue
					}
					switch fa := ex.fieldAddr(st, TV{r}, el, i).(type) {
					case Loc, TV:
						ex.store(st, fa, ft, TV{ex.tm.ZeroOf(ft)})
					}
				}
			}
		}
		fr.vals[x] = TV{r}
		if x.Comment != "" {
			// make it addressable by name in contracts through a pseudo cell
			c := ex.newCell(x.Comment, x.Type())
			st.Cells[c] = TV{r}
			if _, dup := fr.named["&"+x.Comment]; !dup {
				fr.named["&"+x.Comment] = c
			}
		}
	case *ssa.Store:
		addr := ex.operand(fr, st, x.Addr)
		val := ex.operand(fr, st, x.Val)
		ex.checkNil(fr, st, addr, x.Pos(), "store")
		ex.store(st, addr, derefType(x.Addr.Type()), val)
	case *ssa.UnOp:
		fr.vals[x] = ex.unop(fr, st, x)
	case *ssa.BinOp:
		fr.vals[x] = ex.binop(fr, st, x)
	case *ssa.FieldAddr:
		base := ex.operand(fr, st, x.X)
		ex.checkNil(fr, st, base, x.Pos(), "field")
		fr.vals[x] = ex.fieldAddr(st, base, derefType(x.X.Type()), x.Field)
	case *ssa.Field:
		v := ex.operand(fr, st, x.X)
		tv, ok := v.(TV)
		if !ok {
			fr.vals[x] = Unknown{"field of non-term struct"}
			return
		}
		if _, isT := ex.tm.isTargetStruct(x.X.Type()); !isT {
			fr.vals[x] = ex.fresh(st, "extfield", x.Type())
			return
		}
		dt := ex.tm.structDT(x.X.Type())
		t := ts.SelectField(dt, x.Field, tv.T)
		ex.assumeRange(st.PC, t, x.Type())
		fr.vals[x] = TV{t}
	case *ssa.IndexAddr:
		fr.vals[x] = ex.indexAddr(fr, st, x)
	case *ssa.Index:
		v := ex.operand(fr, st, x.X)
		i := ex.operand(fr, st, x.Index)
		tv, ok1 := v.(TV)
		iv, ok2 := i.(TV)
		if !ok1 || !ok2 || !tv.T.Sort.IsArray() {
			fr.vals[x] = ex.fresh(st, "index", x.Type())
			return
		}
		t := ts.Select(tv.T, iv.T)
		ex.assumeRange(st.PC, t, x.Type())
		fr.vals[x] = TV{t}
	case *ssa.Slice:
		fr.vals[x] = ex.sliceOp(fr, st, x)
	case *ssa.MakeSlice:
		l := ex.term(ex.operand(fr, st, x.Len), SInt, "make len")
		c := ex.term(ex.operand(fr, st, x.Cap), SInt, "make cap")
		r := ex.freshObject(st, "slice")
		ex.arrIs(r, x.Type().Underlying().(*types.Slice).Elem())
		es := ex.tm.SortOf(x.Type().Underlying().(*types.Slice).Elem())
		key := ElemKey(es)
		arr := ex.heapGet(st, key, SArray(SInt, SArray(SInt, es)))
		ex.heapSet(st, key, ts.Store(arr, r, ts.ConstArray(SArray(SInt, es), ex.tm.zeroSort(es))))
		fr.vals[x] = TV{ts.Construct(ex.tm.slice, r, ts.Int(0), l, c)}
	case *ssa.MakeMap:
		r := ex.freshObject(st, "map")
		mt := x.Type().Underlying().(*types.Map)
		ks := ex.tm.SortOf(mt.Key())
		dk := MapDomKey(ks, mt)
		dom := ex.heapGet(st, dk, SArray(SInt, SArray(ks, SBool)))
		ex.heapSet(st, dk, ts.Store(dom, r, ts.ConstArray(SArray(ks, SBool), ts.False())))
		card := ex.heapGet(st, MapCardKey, SArray(SInt, SInt))
		ex.heapSet(st, MapCardKey, ts.Store(card, r, ts.Int(0)))
		fr.vals[x] = TV{r}
	case *ssa.MakeChan:
		r := ex.freshObject(st, "chan")
		cl := ex.heapGet(st, "G:closed", SArray(SInt, SBool))
		ex.heapSet(st, "G:closed", ts.Store(cl, r, ts.False()))
		fr.vals[x] = TV{r}
	case *ssa.MakeInterface:
		fr.vals[x] = ex.makeInterface(st, ex.operand(fr, st, x.X), x.X.Type())
	case *ssa.MakeClosure:
		var bind []Value
		for _, b := range x.Bindings {
			bind = append(bind, ex.operand(fr, st, b))
		}
		fr.vals[x] = Closure{Fn: x.Fn.(*ssa.Function), Bind: bind}
	case *ssa.ChangeType:
		fr.vals[x] = ex.operand(fr, st, x.X)
	case *ssa.ChangeInterface:
		fr.vals[x] = ex.operand(fr, st, x.X)
	case *ssa.Convert:
		fr.vals[x] = ex.convert(fr, st, x)
	case *ssa.MultiConvert:
		fr.vals[x] = ex.fresh(st, "multiconvert", x.Type())
	case *ssa.SliceToArrayPointer:
		fr.vals[x] = ex.fresh(st, "s2a", x.Type())
	case *ssa.TypeAssert:
		fr.vals[x] = ex.typeAssert(fr, st, x)
	case *ssa.Extract:
		tup, ok := ex.operand(fr, st, x.Tuple).(Tuple)
		if !ok || x.Index >= len(tup.Vs) {
			fr.vals[x] = ex.fresh(st, "extract", x.Type())
			return
		}
		fr.vals[x] = tup.Vs[x.Index]
	case *ssa.Lookup:
		fr.vals[x] = ex.lookup(fr, st, x)
	case *ssa.MapUpdate:
		ex.mapUpdate(fr, st, x)
	case *ssa.Range:
		m := ex.operand(fr, st, x.X)
		if mt, ok := x.X.Type().Underlying().(*types.Map); ok {
			fr.vals[x] = MapIter{M: ex.term(m, SInt, "range map"), Type: mt}
		} else {
			fr.vals[x] = MapIter{M: ts.Int(0), Str: true}
		}
	case *ssa.Next:
		it, _ := ex.operand(fr, st, x.Iter).(MapIter)
		tup := x.Type().(*types.Tuple)
		ok := ts.Fresh("next.ok", SBool)
		k := ex.fresh(st, "next.k", tup.At(1).Type())
		v := ex.fresh(st, "next.v", tup.At(2).Type())
		if it.Type != nil && !it.Str {
			ks := ex.tm.SortOf(it.Type.Key())
			vs := ex.tm.SortOf(it.Type.Elem())
			kt := ex.term(k, ks, "map key")
			dom := ex.heapGet(st, MapDomKey(ks, it.Type), SArray(SInt, SArray(ks, SBool)))
			val := ex.heapGet(st, MapValKey(ks, vs, it.Type), SArray(SInt, SArray(ks, vs)))
			vt := ex.term(v, vs, "map value")
			ex.assume(st.PC, ts.Implies(ok, ts.And(ts.Select(ts.Select(dom, it.M), kt), ts.Eq(vt, ts.Select(ts.Select(val, it.M), kt)))))
			// an empty map yields nothing
			card := ex.heapGet(st, MapCardKey, SArray(SInt, SInt))
			ex.assume(st.PC, ts.Implies(ok, ts.Ge(ts.Select(card, it.M), ts.Int(1))))
		}
		fr.vals[x] = Tuple{[]Value{TV{ok}, k, v}}
	case *ssa.Select:
		n := len(x.States)
		idx := ts.Fresh("select.idx", SInt)
		lo := 0
		if !x.Blocking {
			lo = -1
		}
		ex.assume(st.PC, ts.And(ts.Le(ts.Int(int64(lo)), idx), ts.Lt(idx, ts.Int(int64(n)))))
		vs := []Value{TV{idx}, TV{ts.Fresh("select.ok", SBool)}}
		for i, s := range x.States {
			// a case on a nil channel is never ready
			if cv, ok := ex.operand(fr, st, s.Chan).(TV); ok && cv.T.Sort == SInt {
				ex.assume(st.PC, ts.Implies(ts.Eq(idx, ts.Int(int64(i))), ts.Neq(cv.T, ts.Int(0))))
			}
			if s.Dir == types.RecvOnly {
				vs = append(vs, ex.fresh(st, "select.recv", s.Chan.Type().Underlying().(*types.Chan).Elem()))
			}
		}
		ex.onBlockingOp(fr, st, "select", x.Pos())
		// the receive ledger: a receive case that is chosen receives once
		for i, s := range x.States {
			if s.Dir != types.RecvOnly {
				continue
			}
			if cv, ok := ex.operand(fr, st, s.Chan).(TV); ok && cv.T.Sort == SInt {
				g := ex.heapGet(st, "G:recvd", SArray(SInt, SInt))
				inc := ts.Ite(ts.Eq(idx, ts.Int(int64(i))), ts.Int(1), ts.Int(0))
				ex.heapSet(st, "G:recvd", ts.Store(g, cv.T, ts.Add(ts.Select(g, cv.T), inc)))
			}
		}
		// the send ledger: a send case that is chosen sends one value
		for i, s := range x.States {
			if s.Dir != types.SendOnly {
				continue
			}
			if cv, ok := ex.operand(fr, st, s.Chan).(TV); ok && cv.T.Sort == SInt {
				g := ex.heapGet(st, "G:sent", SArray(SInt, SInt))
				inc := ts.Ite(ts.Eq(idx, ts.Int(int64(i))), ts.Int(1), ts.Int(0))
				ex.heapSet(st, "G:sent", ts.Store(g, cv.T, ts.Add(ts.Select(g, cv.T), inc)))
			}
		}
		fr.vals[x] = Tuple{vs}
	case *ssa.Send:
		// sent(ch): number of values this call has sent on channel ch
		if cv, ok := ex.operand(fr, st, x.Chan).(TV); ok && cv.T.Sort == SInt {
			g := ex.heapGet(st, "G:sent", SArray(SInt, SInt))
			ex.heapSet(st, "G:sent", ts.Store(g, cv.T, ts.Add(ts.Select(g, cv.T), ts.Int(1))))
		}
		return
	case *ssa.Go:
		ex.execGo(fr, st, x)
	case *ssa.Defer:
		ex.deferSeq++
		cc := x.Common()
		var args []Value
		var fnv Value
		if cc.IsInvoke() {
			fnv = ex.operand(fr, st, cc.Value)
		} else {
			fnv = ex.operand(fr, st, cc.Value)
		}
		for _, a := range cc.Args {
			args = append(args, ex.operand(fr, st, a))
		}
		for _, d := range st.Defers {
			if d.Site == x && d.Frame == fr {
				ex.note("%s: defer armed more than once (defer in loop)", FuncName(fr.fn))
			}
		}
		st.Defers = append(st.Defers, &DeferEntry{Site: x, Frame: fr, Armed: ts.True(), Fn: fnv, Args: args, Seq: ex.deferSeq})
	case *ssa.RunDefers:
		ex.runDefers(fr, st)
	case ssa.CallInstruction:
		call := x.(*ssa.Call)
		fr.vals[call] = ex.execCall(fr, st, call.Common(), call, call.Pos())
	default:
		ex.note("%s: unsupported instruction %T", FuncName(fr.fn), ins)
		if v, ok := ins.(ssa.Value); ok {
			fr.vals[v] = ex.fresh(st, "unsupported", v.Type())
		}
	}
}

func isDeferStack(t types.Type) bool {
	return t.String() == "$ssa.deferStack" || t.String() == "*$ssa.deferStack"
}

func sortOrInt(tm *TypeMap, t types.Type) *Sort {
	if isDeferStack(t) {
		return SInt
	}
	return tm.SortOf(t)
}

func (ex *Exec) checkNil(fr *Frame, st *State, v Value, pos token.Pos, what string) {
	// (also inside inlined callees: a nil dereference there crashes the
	// function under contract just the same)
	if !ex.full || ex.contract == nil || !ex.contract.Safety["nil"] {
		return
	}
	if tv, ok := v.(TV); ok && tv.T.Sort == SInt {
		ex.oblige("safety:nil", what, pos, nil, st, ex.ts.Neq(tv.T, ex.ts.Int(0)))
	}
}

func (ex *Exec) safety(fr *Frame, kind string) bool {
	return ex.full && ex.contract != nil && ex.contract.Safety[kind]
}

func (ex *Exec) unop(fr *Frame, st *State, x *ssa.UnOp) Value {
	ts := ex.ts
	v := ex.operand(fr, st, x.X)
	switch x.Op {
	case token.MUL:
		ex.checkNil(fr, st, v, x.Pos(), "load")
		if _, ok := v.(Loc); !ok {
			if isDeferStack(x.Type()) {
				return DeferStack{}
			}
		}
		return ex.load(st, v, x.Type())
	case token.NOT:
		if tv, ok := v.(TV); ok {
			return TV{ts.Not(tv.T)}
		}
	case token.SUB:
		if tv, ok := v.(TV); ok {
			if tv.T.Sort == SReal {
				return TV{ts.Neg(tv.T)}
			}
			return TV{ex.wrap(ts.Neg(tv.T), x.Type(), true)}
		}
	case token.XOR:
		if tv, ok := v.(TV); ok {
			// ^x = -x-1 (signed), max-x (unsigned)
			if isUnsigned(x.Type()) {
				_, hi := intRange(x.Type())
				return TV{ts.Sub(ts.IntBig(hi), tv.T)}
			}
			return TV{ts.Sub(ts.Neg(tv.T), ts.Int(1))}
		}
	case token.ARROW:
		ex.onBlockingOp(fr, st, "recv", x.Pos())
		ch := ex.term(v, SInt, "recv chan")
		ex.siteRecv(fr, st, ch, x.Pos())
		// recvd(ch): number of receive operations this call completed on ch
		{
			g := ex.heapGet(st, "G:recvd", SArray(SInt, SInt))
			ex.heapSet(st, "G:recvd", ts.Store(g, ch, ts.Add(ts.Select(g, ch), ts.Int(1))))
		}
		if x.CommaOk {
			el := x.Type().(*types.Tuple).At(0).Type()
			okT := ts.Fresh("recv.ok", SBool)
			// ok is false only for a closed (and drained) channel
			closedArr := ex.heapGet(st, "G:closed", SArray(SInt, SBool))
			ex.assume(st.PC, ts.Implies(ts.Not(okT), ts.Select(closedArr, ch)))
			return Tuple{[]Value{ex.fresh(st, "recv", el), TV{okT}}}
		}
		return ex.fresh(st, "recv", x.Type())
	}
	return ex.fresh(st, "unop", x.Type())
}

func (ex *Exec) binop(fr *Frame, st *State, x *ssa.BinOp) Value {
	ts := ex.ts
	a := ex.operand(fr, st, x.X)
	b := ex.operand(fr, st, x.Y)
	at, ok1 := a.(TV)
	bt, ok2 := b.(TV)
	if !ok1 || !ok2 {
		// pointer comparisons with Go-side locations
		if x.Op == token.EQL || x.Op == token.NEQ {
			ra, oka := ex.reifyAny(a)
			rb, okb := ex.reifyAny(b)
			if oka && okb {
				r := ts.Eq(ra, rb)
				if x.Op == token.NEQ {
					r = ts.Not(r)
				}
				return TV{r}
			}
			// a cell pointer is never nil
			if la, ok := a.(Loc); ok && okb && rb.IsLit() && la.Cell != nil {
				return TV{ts.Bool(x.Op == token.NEQ)}
			}
		}
		ex.note("%s: binop %s on %T,%T", FuncName(fr.fn), x.Op, a, b)
		return ex.fresh(st, "binop", x.Type())
	}
	t := x.X.Type()
	if at.T.Sort != bt.T.Sort && x.Op != token.SHL && x.Op != token.SHR {
		ex.note("%s: binop sort mismatch %s %s", FuncName(fr.fn), at.T.Sort, bt.T.Sort)
		return ex.fresh(st, "binop", x.Type())
	}
	switch x.Op {
	case token.EQL:
		return TV{ts.Eq(at.T, bt.T)}
	case token.NEQ:
		return TV{ts.Neq(at.T, bt.T)}
	}
	if at.T.Sort == SBool {
		switch x.Op {
		case token.AND, token.LAND:
			return TV{ts.And(at.T, bt.T)}
		case token.OR, token.LOR:
			return TV{ts.Or(at.T, bt.T)}
		case token.XOR:
			return TV{ts.Neq(at.T, bt.T)}
		}
	}
	if at.T.Sort == SReal {
		switch x.Op {
		case token.ADD:
			return TV{ts.Add(at.T, bt.T)}
		case token.SUB:
			return TV{ts.Sub(at.T, bt.T)}
		case token.MUL:
			return TV{ts.Mul(at.T, bt.T)}
		case token.QUO:
			return TV{ts.RealDiv(at.T, bt.T)}
		case token.LSS:
			return TV{ts.Lt(at.T, bt.T)}
		case token.LEQ:
			return TV{ts.Le(at.T, bt.T)}
		case token.GTR:
			return TV{ts.Gt(at.T, bt.T)}
		case token.GEQ:
			return TV{ts.Ge(at.T, bt.T)}
		}
		return ex.fresh(st, "realop", x.Type())
	}
	if isString(t) {
		switch x.Op {
		case token.ADD:
			r := ex.uf("strcat", SInt, at.T, bt.T)
			ex.assume(ts.True(), ts.Eq(ex.uf("strlen", SInt, r), ts.Add(ex.uf("strlen", SInt, at.T), ex.uf("strlen", SInt, bt.T))))
			return TV{r}
		case token.LSS:
			return TV{ex.uf("strlt", SBool, at.T, bt.T)}
		case token.GTR:
			return TV{ex.uf("strlt", SBool, bt.T, at.T)}
		case token.LEQ:
			return TV{ts.Not(ex.uf("strlt", SBool, bt.T, at.T))}
		case token.GEQ:
			return TV{ts.Not(ex.uf("strlt", SBool, at.T, bt.T))}
		}
		return ex.fresh(st, "strop", x.Type())
	}
	if at.T.Sort != SInt {
		return ex.fresh(st, "binop", x.Type())
	}
	nowrap := ex.safety(fr, "nowrap") && fr.top
	arith := func(exact *Term, single bool) Value {
		if nowrap {
			lo, hi := intRange(x.Type())
			if lo != nil {
				ex.oblige("safety:nowrap", x.Op.String(), x.Pos(), nil, st, ts.And(ts.Le(ts.IntBig(lo), exact), ts.Le(exact, ts.IntBig(hi))))
				return TV{exact}
			}
		}
		return TV{ex.wrap(exact, x.Type(), single)}
	}
	switch x.Op {
	case token.ADD:
		return arith(ts.Add(at.T, bt.T), true)
	case token.SUB:
		return arith(ts.Sub(at.T, bt.T), true)
	case token.MUL:
		return arith(ts.Mul(at.T, bt.T), false)
	case token.QUO:
		if ex.safety(fr, "div") && fr.top {
			ex.oblige("safety:div", "", x.Pos(), nil, st, ts.Neq(bt.T, ts.Int(0)))
		}
		return TV{ex.truncDiv(at.T, bt.T, x.Type())}
	case token.REM:
		if ex.safety(fr, "div") && fr.top {
			ex.oblige("safety:div", "", x.Pos(), nil, st, ts.Neq(bt.T, ts.Int(0)))
		}
		q := ex.truncDiv(at.T, bt.T, x.Type())
		return TV{ts.Sub(at.T, ts.Mul(q, bt.T))}
	case token.LSS:
		return TV{ts.Lt(at.T, bt.T)}
	case token.LEQ:
		return TV{ts.Le(at.T, bt.T)}
	case token.GTR:
		return TV{ts.Gt(at.T, bt.T)}
	case token.GEQ:
		return TV{ts.Ge(at.T, bt.T)}
	case token.AND:
		return TV{ex.band(at.T, bt.T)}
	case token.OR:
		return TV{ts.Sub(ts.Add(at.T, bt.T), ex.band(at.T, bt.T))}
	case token.XOR:
		return TV{ts.Sub(ts.Add(at.T, bt.T), ts.Mul(ts.Int(2), ex.band(at.T, bt.T)))}
	case token.AND_NOT:
		return TV{ts.Sub(at.T, ex.band(at.T, bt.T))}
	case token.SHL:
		if bt.T.IsLit() && bt.T.Int.IsInt64() && bt.T.Int.Int64() < 64 {
			p := new(big.Int).Lsh(big.NewInt(1), uint(bt.T.Int.Int64()))
			return TV{ex.wrap(ts.Mul(at.T, ts.IntBig(p)), x.Type(), false)}
		}
		return TV{ex.wrap(ts.Mul(at.T, ex.pow2(bt.T)), x.Type(), false)}
	case token.SHR:
		if bt.T.IsLit() && bt.T.Int.IsInt64() && bt.T.Int.Int64() < 64 {
			p := new(big.Int).Lsh(big.NewInt(1), uint(bt.T.Int.Int64()))
			return TV{ts.DivEuclid(at.T, ts.IntBig(p))}
		}
		return TV{ts.DivEuclid(at.T, ex.pow2(bt.T))}
	}
	return ex.fresh(st, "binop", x.Type())
}

// pow2 returns 2^n for symbolic n as an uninterpreted function with ground
// facts (positivity, small table).
func (ex *Exec) pow2(n *Term) *Term {
	ts := ex.ts
	p := ex.uf("pow2", SInt, n)
	if !ex.addrSeen[p.ID] {
		ex.addrSeen[p.ID] = true
		ex.assume(ts.True(), ts.Ge(p, ts.Int(1)))
		var tbl *Term = p
		_ = tbl
		for k := int64(0); k < 64; k += 1 {
			ex.assume(ts.True(), ts.Implies(ts.Eq(n, ts.Int(k)), ts.Eq(p, ts.IntBig(new(big.Int).Lsh(big.NewInt(1), uint(k))))))
		}
	}
	return p
}

// truncDiv: Go's truncated division expressed with SMT's euclidean div.
func (ex *Exec) truncDiv(a, b *Term, typ types.Type) *Term {
	ts := ex.ts
	if isUnsigned(typ) {
		return ts.DivEuclid(a, b)
	}
	// trunc(a/b) = sign * (|a| div |b|)
	abs := func(t *Term) *Term { return ts.Ite(ts.Lt(t, ts.Int(0)), ts.Neg(t), t) }
	q := ts.DivEuclid(abs(a), abs(b))
	neg := ts.Neq(ts.Lt(a, ts.Int(0)), ts.Lt(b, ts.Int(0)))
	return ts.Ite(neg, ts.Neg(q), q)
}

// band: bitwise and over mathematical integers (non-negative operands).
func (ex *Exec) band(a, b *Term) *Term {
	ts := ex.ts
	if a.IsLit() && b.IsLit() {
		return ts.IntBig(new(big.Int).And(a.Int, b.Int))
	}
	if b.IsLit() {
		a, b = b, a
	}
	if a.IsLit() && a.Int.Sign() >= 0 {
		// exact decomposition over the set bits of the literal, grouped in runs
		if a.Int.Sign() == 0 {
			return ts.Int(0)
		}
		// mask of the form 2^k-1: x mod 2^k
		plus1 := new(big.Int).Add(a.Int, big.NewInt(1))
		if new(big.Int).And(plus1, a.Int).Sign() == 0 {
			return ts.ModEuclid(b, ts.IntBig(plus1))
		}
		var sum *Term = ts.Int(0)
		n := a.Int.BitLen()
		i := 0
		for i < n {
			if a.Int.Bit(i) == 0 {
				i++
				continue
			}
			j := i
			for j < n && a.Int.Bit(j) == 1 {
				j++
			}
			// bits [i,j): ((x div 2^i) mod 2^(j-i)) * 2^i
			lowp := ts.IntBig(new(big.Int).Lsh(big.NewInt(1), uint(i)))
			width := ts.IntBig(new(big.Int).Lsh(big.NewInt(1), uint(j-i)))
			sum = ts.Add(sum, ts.Mul(ts.ModEuclid(ts.DivEuclid(b, lowp), width), lowp))
			i = j
		}
		return sum
	}
	if a.ID > b.ID {
		a, b = b, a
	}
	r := ex.uf("band", SInt, a, b)
	if !ex.addrSeen[r.ID] {
		ex.addrSeen[r.ID] = true
		// exact low 4 bits, bounds, idempotence
		bit := func(x *Term, i uint) *Term {
			return ts.ModEuclid(ts.DivEuclid(x, ts.IntBig(new(big.Int).Lsh(big.NewInt(1), i))), ts.Int(2))
		}
		var low *Term = ts.Int(0)
		for i := uint(0); i < 4; i++ {
			low = ts.Add(low, ts.Ite(ts.And(ts.Eq(bit(a, i), ts.Int(1)), ts.Eq(bit(b, i), ts.Int(1))), ts.Int(1<<i), ts.Int(0)))
		}
		hiA := ts.DivEuclid(a, ts.Int(16))
		hiB := ts.DivEuclid(b, ts.Int(16))
		hi := ex.uf("band", SInt, hiA, hiB)
		nonneg := ts.And(ts.Ge(a, ts.Int(0)), ts.Ge(b, ts.Int(0)))
		ex.assume(ts.True(), ts.Implies(nonneg, ts.And(
			ts.Eq(r, ts.Add(low, ts.Mul(ts.Int(16), hi))),
			ts.Ge(hi, ts.Int(0)), ts.Le(hi, hiA), ts.Le(hi, hiB),
			ts.Ge(r, ts.Int(0)), ts.Le(r, a), ts.Le(r, b))))
		if a == b {
			ex.assume(ts.True(), ts.Eq(r, a))
		}
	}
	return r
}

func (ex *Exec) reifyAny(v Value) (*Term, bool) {
	switch p := v.(type) {
	case TV:
		if p.T.Sort == SInt {
			return p.T, true
		}
	case Loc:
		return ex.reify(p)
	}
	return nil, false
}

func (ex *Exec) indexAddr(fr *Frame, st *State, x *ssa.IndexAddr) Value {
	ts := ex.ts
	base := ex.operand(fr, st, x.X)
	idx := ex.term(ex.operand(fr, st, x.Index), SInt, "index")
	switch t := x.X.Type().Underlying().(type) {
	case *types.Slice:
		sv, ok := base.(TV)
		if !ok || sv.T.Sort.Name != "Slice" {
			return Unknown{"index of non-slice"}
		}
		ln := ts.SelectField(ex.tm.slice, 2, sv.T)
		if ex.safety(fr, "index") && fr.top {
			ex.oblige("safety:index", "", x.Pos(), nil, st, ts.And(ts.Le(ts.Int(0), idx), ts.Lt(idx, ln)))
		} else {
			// executions that panic on the bounds check do not continue
			ex.assume(st.PC, ts.And(ts.Le(ts.Int(0), idx), ts.Lt(idx, ln)))
		}
		es := ex.tm.SortOf(t.Elem())
		arr := ts.SelectField(ex.tm.slice, 0, sv.T)
		ex.arrIs(arr, t.Elem())
		off := ts.SelectField(ex.tm.slice, 1, sv.T)
		return Loc{Key: ElemKey(es), Idx: arr, Sort: SArray(SInt, es), Path: []PathStep{{Index: ts.Add(off, idx)}}}
	case *types.Pointer: // pointer to array
		at := t.Elem().Underlying().(*types.Array)
		n := ts.Int(at.Len())
		if ex.safety(fr, "index") && fr.top {
			ex.oblige("safety:index", "", x.Pos(), nil, st, ts.And(ts.Le(ts.Int(0), idx), ts.Lt(idx, n)))
		} else {
			ex.assume(st.PC, ts.And(ts.Le(ts.Int(0), idx), ts.Lt(idx, n)))
		}
		switch p := base.(type) {
		case Loc:
			np := append(append([]PathStep(nil), p.Path...), PathStep{Index: idx})
			return Loc{Cell: p.Cell, Key: p.Key, Idx: p.Idx, Sort: p.Sort, Path: np}
		case TV:
			s := ex.tm.SortOf(t.Elem())
			return Loc{Key: ex.tm.MemKey(t.Elem()), Idx: p.T, Sort: s, Path: []PathStep{{Index: idx}}}
		}
	}
	return Unknown{"indexAddr"}
}

func (ex *Exec) sliceOp(fr *Frame, st *State, x *ssa.Slice) Value {
	ts := ex.ts
	base := ex.operand(fr, st, x.X)
	var lo, hi, mx *Term
	if x.Low != nil {
		lo = ex.term(ex.operand(fr, st, x.Low), SInt, "slice lo")
	}
	if x.High != nil {
		hi = ex.term(ex.operand(fr, st, x.High), SInt, "slice hi")
	}
	if x.Max != nil {
		mx = ex.term(ex.operand(fr, st, x.Max), SInt, "slice max")
	}
	switch t := x.X.Type().Underlying().(type) {
	case *types.Slice:
		sv, ok := base.(TV)
		if !ok {
			return ex.fresh(st, "slice", x.Type())
		}
		arr := ts.SelectField(ex.tm.slice, 0, sv.T)
		off := ts.SelectField(ex.tm.slice, 1, sv.T)
		ln := ts.SelectField(ex.tm.slice, 2, sv.T)
		cp := ts.SelectField(ex.tm.slice, 3, sv.T)
		if lo == nil {
			lo = ts.Int(0)
		}
		if hi == nil {
			hi = ln
		}
		if mx == nil {
			mx = cp
		}
		bounds := ts.And(ts.Le(ts.Int(0), lo), ts.Le(lo, hi), ts.Le(hi, mx), ts.Le(mx, cp))
		if ex.safety(fr, "index") && fr.top {
			ex.oblige("safety:slice", "", x.Pos(), nil, st, bounds)
		} else {
			ex.assume(st.PC, bounds)
		}
		return TV{ts.Construct(ex.tm.slice, arr, ts.Add(off, lo), ts.Sub(hi, lo), ts.Sub(mx, lo))}
	case *types.Pointer:
		at, ok := t.Elem().Underlying().(*types.Array)
		if !ok {
			break
		}
		// slicing an array through a pointer: copy its contents into a fresh
		// backing array (aliasing with the array variable is not tracked)
		es := ex.tm.SortOf(at.Elem())
		content := ex.load(st, base, t.Elem())
		ct, ok := content.(TV)
		if !ok {
			break
		}
		if al, isAlloc := x.X.(*ssa.Alloc); !isAlloc || al.Comment != "varargs" {
			ex.note("%s: slice of array variable: aliasing not tracked", FuncName(fr.fn))
		}
		r := ex.freshObject(st, "arr")
		key := ElemKey(es)
		el := ex.heapGet(st, key, SArray(SInt, SArray(SInt, es)))
		ex.heapSet(st, key, ts.Store(el, r, ct.T))
		n := ts.Int(at.Len())
		if lo == nil {
			lo = ts.Int(0)
		}
		if hi == nil {
			hi = n
		}
		if mx == nil {
			mx = n
		}
		return TV{ts.Construct(ex.tm.slice, r, lo, ts.Sub(hi, lo), ts.Sub(mx, lo))}
	}
	return ex.fresh(st, "slice", x.Type())
}

func (ex *Exec) makeInterface(st *State, v Value, typ types.Type) Value {
	ts := ex.ts
	switch p := v.(type) {
	case TV:
		if isPointerLike(typ) {
			if !isInterface(typ) {
				ex.assume(st.PC, ts.Implies(ts.Neq(p.T, ts.Int(0)), ts.Eq(ex.uf("dyntype", SInt, p.T), ex.typeID(typ))))
			}
			return p
		}
		// boxed value
		boxName := "box!" + smtIdent(p.T.Sort.String())
		b := ex.uf(boxName, SInt, p.T)
		if !ex.addrSeen[b.ID] {
			ex.addrSeen[b.ID] = true
			ex.assume(ts.True(), ts.And(
				ts.Eq(ex.uf("un"+boxName, p.T.Sort, b), p.T),
				ts.Neq(b, ts.Int(0)),
				ts.Eq(ex.uf("addrkind", SInt, b), ts.Int(-1))))
		}
		ex.assume(st.PC, ts.Eq(ex.uf("dyntype", SInt, b), ex.typeID(typ)))
		return TV{b}
	case Loc:
		if t, ok := ex.reify(p); ok {
			return TV{t}
		}
	case Closure, FnVal:
		return TV{ex.term(v, SInt, "func in interface")}
	}
	ex.note("makeInterface of %T", v)
	t := ts.Fresh("iface", SInt)
	return TV{t}
}

func (ex *Exec) typeAssert(fr *Frame, st *State, x *ssa.TypeAssert) Value {
	ts := ex.ts
	v := ex.term(ex.operand(fr, st, x.X), SInt, "type assert")
	var ok *Term
	var res Value
	if isInterface(x.AssertedType) {
		// whether the dynamic type implements the interface is a fact about
		// the two types (see ifaces.go)
		ex.noteInterface(x.AssertedType)
		ok = ts.And(ts.Neq(v, ts.Int(0)), ex.implementsTerm(ex.uf("dyntype", SInt, v), x.AssertedType))
		res = TV{v}
	} else {
		ok = ts.And(ts.Neq(v, ts.Int(0)), ts.Eq(ex.uf("dyntype", SInt, v), ex.typeID(x.AssertedType)))
		if isPointerLike(x.AssertedType) {
			res = TV{v}
		} else {
			s := ex.tm.SortOf(x.AssertedType)
			boxName := "box!" + smtIdent(s.String())
			res = TV{ex.uf("un"+boxName, s, v)}
			ex.assumeRange(st.PC, res.(TV).T, x.AssertedType)
		}
	}
	if x.CommaOk {
		rt := res.(TV).T
		return Tuple{[]Value{TV{ts.Ite(ok, rt, ex.tm.zeroSort(rt.Sort))}, TV{ok}}}
	}
	if ex.safety(fr, "assert") && fr.top {
		ex.oblige("safety:typeassert", "", x.Pos(), nil, st, ok)
	} else {
		ex.assume(st.PC, ok)
	}
	return res
}

func (ex *Exec) convert(fr *Frame, st *State, x *ssa.Convert) Value {
	ts := ex.ts
	v := ex.operand(fr, st, x.X)
	from, to := x.X.Type(), x.Type()
	tv, ok := v.(TV)
	if !ok {
		return v
	}
	switch {
	case isInteger(from) && isInteger(to):
		flo, fhi := intRange(from)
		tlo, thi := intRange(to)
		if flo == nil || tlo == nil {
			return TV{ex.wrap(tv.T, to, false)}
		}
		if flo.Cmp(tlo) >= 0 && fhi.Cmp(thi) <= 0 {
			return tv
		}
		// same width sign change: a single wrap suffices
		fw := new(big.Int).Sub(fhi, flo)
		tw := new(big.Int).Sub(thi, tlo)
		return TV{ex.wrap(tv.T, to, fw.Cmp(tw) <= 0)}
	case isInteger(from) && ex.tm.SortOf(to) == SReal:
		return TV{ts.RealFromInt(tv.T)}
	case ex.tm.SortOf(from) == SReal && isInteger(to):
		r := ex.fresh(st, "f2i", to)
		return r
	case ex.tm.SortOf(from) == SReal && ex.tm.SortOf(to) == SReal:
		return tv
	case isString(to) && isInteger(from):
		return TV{ex.uf("runestr", SInt, tv.T)}
	case isString(to):
		// string(bytes): uninterpreted function of the slice contents at this time
		return ex.fresh(st, "str", to)
	case isString(from):
		// []byte(s)
		if _, ok := to.Underlying().(*types.Slice); ok {
			r := ex.freshObject(st, "bytes")
			n := ex.uf("strlen", SInt, tv.T)
			ex.assume(ts.True(), ts.Ge(n, ts.Int(0)))
			return TV{ts.Construct(ex.tm.slice, r, ts.Int(0), n, n)}
		}
	}
	if ex.tm.SortOf(from) == ex.tm.SortOf(to) {
		return tv
	}
	return ex.fresh(st, "convert", to)
}

func (ex *Exec) mapSorts(mt *types.Map) (*Sort, *Sort) {
	return ex.tm.SortOf(mt.Key()), ex.tm.SortOf(mt.Elem())
}

func (ex *Exec) lookup(fr *Frame, st *State, x *ssa.Lookup) Value {
	ts := ex.ts
	mt, ok := x.X.Type().Underlying().(*types.Map)
	if !ok {
		// string index
		return ex.fresh(st, "strindex", x.Type())
	}
	m := ex.term(ex.operand(fr, st, x.X), SInt, "map")
	ex.mapIs(m, mt)
	ks, vs := ex.mapSorts(mt)
	k := ex.term(ex.operand(fr, st, x.Index), ks, "map key")
	dom := ex.heapGet(st, MapDomKey(ks, mt), SArray(SInt, SArray(ks, SBool)))
	val := ex.heapGet(st, MapValKey(ks, vs, mt), SArray(SInt, SArray(ks, vs)))
	card := ex.heapGet(st, MapCardKey, SArray(SInt, SInt))
	in := ts.And(ts.Neq(m, ts.Int(0)), ts.Select(ts.Select(dom, m), k))
	v := ts.Ite(in, ts.Select(ts.Select(val, m), k), ex.tm.zeroSort(vs))
	ex.assume(st.PC, ts.And(ts.Ge(ts.Select(card, m), ts.Int(0)), ts.Implies(in, ts.Ge(ts.Select(card, m), ts.Int(1)))))
	ex.assumeRange(st.PC, v, mt.Elem())
	if isPointerLike(mt.Elem()) {
		ex.knownRef(st, v)
	}
	if x.CommaOk {
		return Tuple{[]Value{TV{v}, TV{in}}}
	}
	return TV{v}
}

func (ex *Exec) mapUpdate(fr *Frame, st *State, x *ssa.MapUpdate) {
	ts := ex.ts
	mt := x.Map.Type().Underlying().(*types.Map)
	m := ex.term(ex.operand(fr, st, x.Map), SInt, "map")
	ex.mapIs(m, mt)
	ks, vs := ex.mapSorts(mt)
	k := ex.term(ex.operand(fr, st, x.Key), ks, "map key")
	v := ex.term(ex.operand(fr, st, x.Value), vs, "map value")
	dk, vk := MapDomKey(ks, mt), MapValKey(ks, vs, mt)
	// an assignment to an entry of a nil map panics: the path ends there
	if ex.safety(fr, "nil") && fr.top {
		ex.oblige("safety:nilmap", "", x.Pos(), nil, st, ts.Neq(m, ts.Int(0)))
	} else {
		ex.assume(st.PC, ts.Neq(m, ts.Int(0)))
	}
	dom := ex.heapGet(st, dk, SArray(SInt, SArray(ks, SBool)))
	val := ex.heapGet(st, vk, SArray(SInt, SArray(ks, vs)))
	card := ex.heapGet(st, MapCardKey, SArray(SInt, SInt))
	was := ts.Select(ts.Select(dom, m), k)
	ex.heapSet(st, dk, ts.Store(dom, m, ts.Store(ts.Select(dom, m), k, ts.True())))
	ex.heapSet(st, vk, ts.Store(val, m, ts.Store(ts.Select(val, m), k, v)))
	ex.heapSet(st, MapCardKey, ts.Store(card, m, ts.Add(ts.Select(card, m), ts.Ite(was, ts.Int(0), ts.Int(1)))))
}

func (ex *Exec) mapDelete(st *State, mt *types.Map, m, k *Term) {
	ts := ex.ts
	ex.mapIs(m, mt)
	ks, _ := ex.mapSorts(mt)
	dk := MapDomKey(ks, mt)
	dom := ex.heapGet(st, dk, SArray(SInt, SArray(ks, SBool)))
	card := ex.heapGet(st, MapCardKey, SArray(SInt, SInt))
	was := ts.And(ts.Neq(m, ts.Int(0)), ts.Select(ts.Select(dom, m), k))
	ex.assume(st.PC, ts.Implies(was, ts.Ge(ts.Select(card, m), ts.Int(1))))
	ex.heapSet(st, dk, ts.Store(dom, m, ts.Store(ts.Select(dom, m), k, ts.False())))
	ex.heapSet(st, MapCardKey, ts.Store(card, m, ts.Sub(ts.Select(card, m), ts.Ite(was, ts.Int(1), ts.Int(0)))))
}

var _ = fmt.Sprintf
