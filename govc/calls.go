package main

// Calls (builtins, contracts, inlining, havoc), defers, goroutines, loops.

import (
	"fmt"
	"go/token"
	"go/types"
	"os"
	"sort"
	"strings"

	"golang.org/x/tools/go/ssa"
)

const maxInlineDepth = 5

func (ex *Exec) execCall(fr *Frame, st *State, cc *ssa.CallCommon, instr ssa.Instruction, pos token.Pos) Value {
	if bi, ok := cc.Value.(*ssa.Builtin); ok {
		var args []Value
		for _, a := range cc.Args {
			args = append(args, ex.operand(fr, st, a))
		}
		ex.siteHooks(fr, st, instr, "builtin."+bi.Name(), args, nil, cc, true)
		res := ex.builtin(fr, st, bi, cc, args, instr, pos)
		ex.siteHooksAfter(fr, st, instr, "builtin."+bi.Name(), args, res)
		return res
	}
	fnv := ex.operand(fr, st, cc.Value)
	var args []Value
	for _, a := range cc.Args {
		args = append(args, ex.operand(fr, st, a))
	}
	return ex.dispatch(fr, st, cc, fnv, args, instr, pos)
}

func resultType(cc *ssa.CallCommon) types.Type {
	sig := cc.Signature()
	switch sig.Results().Len() {
	case 0:
		return nil
	case 1:
		return sig.Results().At(0).Type()
	}
	return sig.Results()
}

func shortCallee(name string) string {
	if i := strings.LastIndex(name, "."); i >= 0 {
		name = name[i+1:]
	}
	return name
}

// dispatch performs a call with evaluated callee value and arguments.
func (ex *Exec) dispatch(fr *Frame, st *State, cc *ssa.CallCommon, fnv Value, args []Value, instr ssa.Instruction, pos token.Pos) Value {
	rt := resultType(cc)
	name := calleeName(cc)
	var fn *ssa.Function
	var bind []Value
	if cc.IsInvoke() {
		args = append([]Value{fnv}, args...)
	} else {
		switch f := fnv.(type) {
		case FnVal:
			fn = f.Fn
		case Closure:
			fn = f.Fn
			bind = f.Bind
		}
		if fn != nil {
			if fn.Origin() != nil {
				fn = fn.Origin()
			}
			name = FuncName(fn)
			if fn.Blocks == nil {
				if t, ok := ex.prog.Funcs[name]; ok {
					fn = t
				}
			}
		}
	}
	// leaf locks: no call that may take a lock or reach unknown code while held
	ex.checkLeafLocks(fr, st, cc, fn, name, pos)
	// site assertions of the function under verification
	ex.siteHooks(fr, st, instr, name, args, fn, cc, true)
	var res Value
	fc := ex.prog.Contracts.Funcs[name]
	switch {
	case fc != nil && !fc.Inline:
		ex.calleeBind = bind
		res = ex.applyContract(fr, st, fc, fn, cc.Signature(), args, rt, pos)
		ex.calleeBind = nil
	case fn != nil && fn.Blocks != nil && ex.isTargetFn(fn) && (bind != nil || fn.Parent() != nil || ex.prog.Pre.Inlinable(fn)) && fr.depth < maxInlineDepth:
		ex.inlined[name] = true
		ret, vals := ex.runFunc(fn, args, bind, st, fr.depth+1, false)
		if ret == nil {
			st.PC = ex.ts.False()
			res = ex.freshResult(st, "noreturn", rt)
		} else {
			*st = *ret
			switch len(vals) {
			case 0:
				res = nil
			case 1:
				res = vals[0]
			default:
				res = Tuple{vals}
			}
		}
	case fn != nil && fn.Blocks != nil && ex.isTargetFn(fn):
		// in-package callee, not inlined: frame = inferred write set
		ex.havocInferred(st, ex.prog.Pre.WriteSet[fn])
		ex.havocEscapedCells(fr, st)
		st.Time++
		res = ex.freshResult(st, "ret!"+shortCallee(name), rt)
	case fn == nil && !cc.IsInvoke():
		// dynamic call through a function value
		sig, _ := cc.Value.Type().Underlying().(*types.Signature)
		for _, f := range ex.prog.Pre.FuncValues {
			if sig != nil && sigKey(f.Signature) == sigKey(sig) {
				ex.havocInferred(st, ex.prog.Pre.WriteSet[f])
			}
		}
		ex.havocPointerArgs(st, cc, args)
		ex.havocEscapedCells(fr, st)
		st.Time++
		res = ex.freshResult(st, "ret!dyn", rt)
	case cc.IsInvoke():
		// interface method without contract: union of in-package implementations
		for _, impl := range ex.prog.Pre.Impls[cc.Method.Name()] {
			if sigKey(impl.Signature) == sigKey(cc.Method.Type().(*types.Signature)) {
				ex.havocInferred(st, ex.prog.Pre.WriteSet[impl])
			}
		}
		ex.havocPointerArgs(st, cc, args[1:])
		ex.havocEscapedCells(fr, st)
		st.Time++
		res = ex.freshResult(st, "ret!"+cc.Method.Name(), rt)
	default:
		// external function without stub
		ex.havocPointerArgs(st, cc, args)
		ex.havocEscapedCells(fr, st)
		st.Time++
		res = ex.freshResult(st, "ret!"+shortCallee(name), rt)
	}
	ex.siteHooksAfter(fr, st, instr, name, args, res)
	return res
}

// havocInferred havocs an inferred write-set. Stable ghost ledgers (held,
// rheld, pile) are exempt: a callee without an explicit lock-effect contract
// is balanced by the default contract, which the sweep checks for the callee.
func (ex *Exec) havocInferred(st *State, ws KeySet) {
	var keys []string
	for _, k := range ws.Sorted() {
		if strings.HasPrefix(k, "G:") {
			if g, ok := ex.prog.Contracts.GhostMaps[k[2:]]; ok && g.Stable {
				continue
			}
		}
		keys = append(keys, k)
	}
	ex.havocSet(st, keys)
}

func (ex *Exec) isTargetFn(fn *ssa.Function) bool {
	_, ok := ex.prog.Pre.WriteSet[fn]
	return ok
}

func (ex *Exec) freshResult(st *State, name string, rt types.Type) Value {
	if rt == nil {
		return nil
	}
	return ex.fresh(st, name, rt)
}

// havocPointerArgs: an unknown callee may write through scalar pointers.
func (ex *Exec) havocPointerArgs(st *State, cc *ssa.CallCommon, args []Value) {
	for i, a := range cc.Args {
		pt, ok := a.Type().Underlying().(*types.Pointer)
		if !ok {
			continue
		}
		if _, isStruct := pt.Elem().Underlying().(*types.Struct); isStruct {
			continue
		}
		if i >= len(args) {
			continue
		}
		switch p := args[i].(type) {
		case TV:
			s := ex.tm.SortOf(pt.Elem())
			key := ex.tm.MemKey(pt.Elem())
			arr := ex.heapGet(st, key, SArray(SInt, s))
			nv := ex.ts.Fresh("out", s)
			ex.assumeRange(ex.ts.True(), nv, pt.Elem())
			ex.heapSet(st, key, ex.ts.Store(arr, p.T, nv))
		case Loc:
			v := ex.fresh(st, "out", pt.Elem())
			ex.storeLoc(st, p, v)
		}
	}
}

// havocEscapedCells: cells captured by closures that were turned into opaque
// values may be written by anybody.
func (ex *Exec) havocEscapedCells(fr *Frame, st *State) {}

// ---------------------------------------------------------------------------
// contracts at call sites

func sigParamNames(sig *types.Signature) []string {
	var names []string
	if r := sig.Recv(); r != nil {
		n := r.Name()
		if n == "" || n == "_" {
			n = "recv"
		}
		names = append(names, n)
	}
	for i := 0; i < sig.Params().Len(); i++ {
		n := sig.Params().At(i).Name()
		if n == "" || n == "_" {
			n = fmt.Sprintf("a%d", i)
		}
		names = append(names, n)
	}
	return names
}

func sigParamTypes(sig *types.Signature) []types.Type {
	var out []types.Type
	if r := sig.Recv(); r != nil {
		out = append(out, r.Type())
	}
	for i := 0; i < sig.Params().Len(); i++ {
		out = append(out, sig.Params().At(i).Type())
	}
	return out
}

func (ex *Exec) calleeEnv(fc *FuncContract, fn *ssa.Function, sig *types.Signature, args []Value) map[string]SV {
	env := map[string]SV{}
	var names []string
	var typs []types.Type
	if fn != nil && len(fn.Params) == len(args) {
		for _, p := range fn.Params {
			names = append(names, p.Name())
			typs = append(typs, p.Type())
		}
	} else {
		names = sigParamNames(sig)
		typs = sigParamTypes(sig)
		if len(names) != len(args) {
			// invoke: receiver is the interface value
			names = append([]string{"recv"}, names...)
			typs = append([]types.Type{nil}, typs...)
		}
	}
	for i, a := range args {
		if i < len(names) {
			env[names[i]] = SV{V: a, T: typs[i]}
			env[fmt.Sprintf("arg%d", i)] = SV{V: a, T: typs[i]}
		}
	}
	if fn != nil && len(fn.Params) == len(args) {
		aliasRenamed(fn, env)
	}
	return env
}

func (ex *Exec) bindResults(env map[string]SV, sig *types.Signature, res Value) {
	n := sig.Results().Len()
	var vals []Value
	switch {
	case n == 0:
	case n == 1:
		vals = []Value{res}
	default:
		if t, ok := res.(Tuple); ok {
			vals = t.Vs
		}
	}
	for i, v := range vals {
		typ := sig.Results().At(i).Type()
		env[fmt.Sprintf("r%d", i)] = SV{V: v, T: typ}
		if nm := sig.Results().At(i).Name(); nm != "" && nm != "_" {
			if _, clash := env[nm]; !clash {
				env[nm] = SV{V: v, T: typ}
			}
		}
	}
}

func (ex *Exec) applyContract(fr *Frame, st *State, fc *FuncContract, fn *ssa.Function, sig *types.Signature, args []Value, rt types.Type, pos token.Pos) Value {
	ts := ex.ts
	if fc.IsStub {
		ex.usedStubs[fc.Name] = true
	} else if fc.Trusted {
		ex.usedStubs[fc.Name+" (in-repo function, contract trusted: "+fc.TrustedReason+")"] = true
	}
	env := ex.calleeEnv(fc, fn, sig, args)
	if fn != nil && len(ex.calleeBind) == len(fn.FreeVars) {
		// a closure under contract: its free variables denote the values
		// the captured variables have at the call
		for i, fv := range fn.FreeVars {
			if _, clash := env[fv.Name()]; !clash {
				env[fv.Name()] = SV{V: ex.derefBinding(st, ex.calleeBind[i], fv.Type()), T: derefType(fv.Type())}
			}
		}
	}
	ctx := &EvalCtx{ex: ex, st: st, old: st, env: env, pkg: fc.Pkg, fnPos: fnPos(fn)}
	if ex.full {
		for i, r := range fc.Requires {
			c, err := ctx.evalBool(r.Expr)
			if err != nil {
				ex.contractProblem("%s: requires of %s: %v", r.Pos, fc.Name, err)
				continue
			}
			label := r.Label
			if label == "" {
				label = fmt.Sprintf("%d", i+1)
			}
			trusted := false
			if ex.contract != nil {
				for _, tc := range ex.contract.TrustCalls {
					if tc.Callee == shortCallee(fc.Name) {
						trusted = true
						ex.assume(st.PC, c)
						msg := fmt.Sprintf("%s: precondition %q of %s assumed at its call sites -- %s", FuncName(ex.fn), r.Text, shortCallee(fc.Name), tc.Reason)
						dup := false
						for _, a := range ex.assumedClauses {
							if a == msg {
								dup = true
							}
						}
						if !dup {
							ex.assumedClauses = append(ex.assumedClauses, msg)
						}
					}
				}
			}
			if trusted {
				continue
			}
			// a precondition is proved where caller and callee serve a common
			// property; elsewhere it is assumed, and the evidence says so
			shared := []string{}
			if ex.contract != nil {
				for _, p := range fc.Props {
					if hasProp(ex.contract.Props, p) {
						shared = append(shared, p)
					}
				}
			}
			if len(shared) == 0 && len(fc.Props) > 0 {
				ex.assume(st.PC, c)
				msg := fmt.Sprintf("%s: precondition %q of %s (%s) assumed: the caller is not under contract for that property", FuncName(ex.fn), r.Text, shortCallee(fc.Name), strings.Join(fc.Props, ","))
				dup := false
				for _, a := range ex.assumedClauses {
					if a == msg {
						dup = true
					}
				}
				if !dup {
					ex.assumedClauses = append(ex.assumedClauses, msg)
				}
				continue
			}
			ex.oblige("requires@call", shortCallee(fc.Name)+":"+label, pos, shared, st, c)
		}
	}
	// the callee panics under its panics_if conditions: a caller that claims
	// to be panic-free must exclude them; on return they did not hold
	if len(fc.PanicsIf) > 0 {
		pan := ex.ts.False()
		for _, pc := range fc.PanicsIf {
			c, err := ctx.evalBool(pc.Expr)
			if err != nil {
				ex.contractProblem("%s: panics_if of %s: %v", pc.Pos, fc.Name, err)
				continue
			}
			pan = ex.ts.Or(pan, c)
		}
		if ex.full && fr.top && ex.contract != nil && (ex.contract.Safety["nopanic"] || len(ex.contract.PanicsIf) > 0) {
			allowed := ex.ts.False()
			ectx := &EvalCtx{ex: ex, st: ex.entry, old: ex.entry, env: ex.entryEnv, pkg: ex.contract.Pkg, fnPos: ex.fn.Pos()}
			for _, c := range ex.contract.PanicsIf {
				if t, err := ectx.evalBool(c.Expr); err == nil {
					allowed = ex.ts.Or(allowed, t)
				}
			}
			ex.oblige("safety:panic@call", shortCallee(fc.Name), pos, nil, st, ex.ts.Or(ex.ts.Not(pan), allowed))
		}
		ex.assume(st.PC, ex.ts.Not(pan))
	}
	pre := st.Clone()
	// frame
	if fc.HasMod {
		for _, m := range fc.Modifies {
			if err := ctx.havocTarget(m.Expr); err != nil {
				ex.contractProblem("%s: modifies %s: %v", fc.Pos, m.Text, err)
			}
		}
	} else if fn != nil && ex.isTargetFn(fn) {
		ex.havocInferred(st, ex.prog.Pre.WriteSet[fn])
		// the callee may also write through pointers to the caller's local
		// (or captured) variables handed to it
		for _, a := range args {
			if l, ok := a.(Loc); ok && l.Cell != nil {
				if _, present := st.Cells[l.Cell]; present && l.Cell.Type != nil {
					st.Cells[l.Cell] = ex.fresh(st, "viaptr!"+l.Cell.Name, l.Cell.Type)
				}
			}
		}
	}
	// (a key ending in * is a prefix pattern over all heap keys known for the
	// loaded packages; E:<sort>@<type> only reaches arrays of that element type)
	ex.havocSet(st, fc.Havoc)
	st.Time++
	// results
	var res Value
	if rt != nil {
		res = ex.fresh(st, "ret!"+shortCallee(fc.Name), rt)
		for _, idx := range fc.Fresh {
			var v Value = res
			if t, ok := res.(Tuple); ok && idx < len(t.Vs) {
				v = t.Vs[idx]
			}
			if tv, ok := v.(TV); ok && tv.T.Sort == SInt {
				st.Time++
				ex.assume(st.PC, ts.Implies(ts.Neq(tv.T, ts.Int(0)), ts.And(
					ts.Eq(ex.uf("alloctime", SInt, tv.T), ts.Int(int64(st.Time))),
					ts.Eq(ex.uf("addrkind", SInt, tv.T), ts.Int(0)))))
			}
		}
	}
	post := &EvalCtx{ex: ex, st: st, old: pre, env: env, pkg: fc.Pkg, fnPos: fnPos(fn)}
	ex.bindResults(env, sig, res)
	// lock effects
	for _, le := range fc.LockFx {
		ex.applyLockEffect(post, st, le)
	}
	for _, g := range fc.Ghosts {
		if err := post.applyGhost(g); err != nil {
			ex.contractProblem("%s: ghostset %s: %v", fc.Pos, g.Text, err)
		}
	}
	for _, e := range fc.Ensures {
		c, err := post.evalBool(e.Expr)
		if err != nil {
			if mentionsCalleeLocal(fn, err) {
				// a postcondition over the callee's own local variables is
				// proved on the callee's body; a caller cannot use it
				continue
			}
			ex.contractProblem("%s: ensures of %s: %v", e.Pos, fc.Name, err)
			continue
		}
		ex.assume(st.PC, c)
	}
	for _, e := range fc.AssumedEnsures {
		c, err := post.evalBool(e.Expr)
		if err != nil {
			ex.contractProblem("%s: ensures_assumed of %s: %v", e.Pos, fc.Name, err)
			continue
		}
		ex.assume(st.PC, c)
		msg := fmt.Sprintf("%s: assumed postcondition %s -- %s", fc.Name, e.Expr.String(), e.Label)
		dup := false
		for _, a := range ex.assumedClauses {
			if a == msg {
				dup = true
			}
		}
		if !dup {
			ex.assumedClauses = append(ex.assumedClauses, msg)
		}
	}
	return res
}

// mentionsCalleeLocal: the evaluation error is about an identifier that is a
// local variable of fn.
func mentionsCalleeLocal(fn *ssa.Function, err error) bool {
	const pfx = "unknown identifier "
	msg := err.Error()
	i := strings.Index(msg, pfx)
	if fn == nil || i < 0 {
		return false
	}
	name := strings.TrimSpace(msg[i+len(pfx):])
	for _, l := range fn.Locals {
		if l.Comment == name {
			return true
		}
	}
	// a local of the callee that was merely renamed (see renames.go)
	if cur, ok := renamedVariables(fn)[name]; ok {
		for _, l := range fn.Locals {
			if l.Comment == cur {
				return true
			}
		}
	}
	return false
}

func fnPos(fn *ssa.Function) token.Pos {
	if fn == nil {
		return token.NoPos
	}
	return fn.Pos()
}

func (ex *Exec) contractProblem(format string, args ...interface{}) {
	msg := fmt.Sprintf(format, args...)
	ex.notes["CONTRACT-PROBLEM: "+msg] = true
}

func (ex *Exec) heldKey(read bool) string {
	if read {
		return "G:rheld"
	}
	return "G:held"
}

func (ex *Exec) touchLock(l *Term, read bool) {
	list := &ex.lockTerms
	if read {
		list = &ex.rlockTerms
	}
	for _, t := range *list {
		if t == l {
			return
		}
	}
	*list = append(*list, l)
}

func (ex *Exec) applyLockEffect(ctx *EvalCtx, st *State, le LockEffect) {
	ts := ex.ts
	sv, err := ctx.eval(le.Expr)
	if err != nil {
		ex.contractProblem("lockeffect %s: %v", le.Text, err)
		return
	}
	l, ok := ex.reifyAny(sv.V)
	if !ok {
		ex.contractProblem("lockeffect %s: lock expression is not a reference", le.Text)
		return
	}
	ex.touchLock(l, le.Read)
	key := ex.heldKey(le.Read)
	held := ex.heapGet(st, key, SArray(SInt, SInt))
	nv := ts.Add(ts.Select(held, l), ts.Int(int64(le.Delta)))
	if le.Cond != nil {
		c, err := ctx.evalBool(le.Cond)
		if err != nil {
			ex.contractProblem("lockeffect condition %s: %v", le.Text, err)
			return
		}
		nv = ts.Ite(c, nv, ts.Select(held, l))
	}
	if le.Delta > 0 && !le.Read {
		// acquiring a lock this call already holds is a self-deadlock
		if ex.curFrame != nil {
			cond := ts.Le(ts.Select(held, l), ts.Int(0))
			if le.Cond != nil {
				c, _ := ctx.evalBool(le.Cond)
				if c != nil {
					cond = ts.Implies(c, cond)
				}
			}
			ex.selfDeadlock(st, l, cond)
		}
	}
	if le.Delta < 0 && !le.Read {
		ex.monitorRelease(st, l)
	}
	ex.heapSet(st, key, ts.Store(held, l, nv))
	if le.Delta > 0 && !le.Read {
		var cond *Term
		if le.Cond != nil {
			cond, _ = ctx.evalBool(le.Cond)
		}
		ex.monitorAcquire(st, l, cond)
	}
}

// monitorOf finds the monitor declared for the mutex field the lock term
// denotes, together with the object that contains the mutex.
func (ex *Exec) monitorOf(l *Term) (*MonitorDecl, *Term, types.Type) {
	if ex.prog.Contracts.Monitors == nil || !strings.HasPrefix(l.Op, "$f:fa!") || len(l.Args) != 1 {
		return nil, nil, nil
	}
	md := ex.prog.Contracts.Monitors[l.Op[len("$f:fa!"):]]
	if md == nil || md.Pkg == nil {
		return nil, nil, nil
	}
	obj := md.Pkg.Types.Scope().Lookup(md.TypeName)
	if obj == nil {
		ex.contractProblem("%s: monitor %s: unknown type %s", md.Pos, md.Key, md.TypeName)
		return nil, nil, nil
	}
	return md, l.Args[0], obj.Type()
}

// monitorAcquire: other threads may have changed the guarded fields while the
// lock was not held: havoc them and assume the monitor invariant.
func (ex *Exec) monitorAcquire(st *State, l *Term, cond *Term) {
	md, base, typ := ex.monitorOf(l)
	if md == nil {
		return
	}
	su, ok := typ.Underlying().(*types.Struct)
	if !ok {
		return
	}
	if ex.monitorsAcquired == nil {
		ex.monitorsAcquired = map[string]bool{}
	}
	ex.monitorsAcquired[md.Key] = true
	for _, g := range md.Guards {
		found := false
		for i := 0; i < su.NumFields(); i++ {
			if su.Field(i).Name() != g {
				continue
			}
			found = true
			ft := su.Field(i).Type()
			addr := ex.fieldAddr(st, TV{base}, typ, i)
			nv := ex.fresh(st, "interference!"+g, ft)
			if cond != nil {
				old := ex.load(st, addr, ft)
				nv = ex.mergeValues(cond, nv, old)
			}
			ex.store(st, addr, ft, nv)
		}
		if !found {
			ex.contractProblem("%s: monitor %s: type %s has no field %s", md.Pos, md.Key, md.TypeName, g)
		}
	}
	st.Time++
	mctx := &EvalCtx{ex: ex, st: st, old: st, env: map[string]SV{"this": {V: TV{base}, T: types.NewPointer(typ)}}, pkg: md.Pkg}
	for _, inv := range md.Inv {
		c, err := mctx.evalBool(inv.Expr)
		if err != nil {
			ex.contractProblem("%s: monitor %s invariant: %v", inv.Pos, md.Key, err)
			continue
		}
		if cond != nil {
			c = ex.ts.Implies(cond, c)
		}
		ex.assume(st.PC, c)
	}
	for _, as := range md.Assumes {
		c, err := mctx.evalBool(as.Expr)
		if err != nil {
			ex.contractProblem("%s: monitor %s assume: %v", as.Pos, md.Key, err)
			continue
		}
		if cond != nil {
			c = ex.ts.Implies(cond, c)
		}
		ex.assume(st.PC, c)
		ex.usedStubs["monitor "+md.Key+": assumed at acquisition: "+as.Expr.String()+" -- "+as.Label] = true
	}
	ex.usedStubs["monitor "+md.Key+": guarded fields are havocked at every acquisition; the invariant is assumed there and proved at every release inside functions under contract"] = true
}

// monitorRelease: the invariant must hold when the lock is given up.
func (ex *Exec) monitorRelease(st *State, l *Term) {
	md, base, typ := ex.monitorOf(l)
	if md == nil || !ex.full || ex.contract == nil {
		return
	}
	mctx := &EvalCtx{ex: ex, st: st, old: st, env: map[string]SV{"this": {V: TV{base}, T: types.NewPointer(typ)}}, pkg: md.Pkg}
	pos := token.NoPos
	if ex.curFrame != nil {
		pos = ex.curFrame.fn.Pos()
	}
	for i, inv := range md.Inv {
		c, err := mctx.evalBool(inv.Expr)
		if err != nil {
			ex.contractProblem("%s: monitor %s invariant: %v", inv.Pos, md.Key, err)
			continue
		}
		label := inv.Label
		if label == "" {
			label = fmt.Sprintf("%d", i+1)
		}
		ex.oblige("monitor-inv@unlock", md.TypeName+":"+label, pos, md.Props, st, c)
	}
}

// checkLeafLocks: a lock declared `leaflock T.f` is innermost in the lock
// order. While it is held, the function may not call anything that may take
// another lock or whose code is unknown (interface methods, function values,
// in-package functions that reach a lock operation): such a call can block on
// or re-enter the leaf lock's holders and deadlock.
func (ex *Exec) checkLeafLocks(fr *Frame, st *State, cc *ssa.CallCommon, fn *ssa.Function, name string, pos token.Pos) {
	leafs := ex.prog.Contracts.LeafLocks
	if len(leafs) == 0 {
		return
	}
	if _, isBuiltin := cc.Value.(*ssa.Builtin); isBuiltin && !cc.IsInvoke() {
		return
	}
	risky := false
	switch {
	case cc.IsInvoke():
		if len(ex.prog.Pre.Impls[cc.Method.Name()]) == 0 {
			// no loaded package implements a method of that name: the
			// object behind the interface belongs to a dependency
			// (clock, random number generator, ...), assumed not to call
			// back into the packages under verification
			risky = false
		} else {
			risky = false
			for _, impl := range ex.prog.Pre.Impls[cc.Method.Name()] {
				if sigKey(impl.Signature) == sigKey(cc.Method.Type().(*types.Signature)) && ex.prog.Pre.LockTouch[impl] {
					risky = true
				}
			}
		}
	case fn == nil:
		risky = true // function value
	case ex.isTargetFn(fn):
		risky = ex.prog.Pre.LockTouch[fn]
		if fc, ok := ex.prog.Contracts.Funcs[name]; ok && len(fc.LockFx) > 0 {
			risky = true
		}
	default:
		// a function of another package with a contract that has a lock
		// effect (sync.Mutex.Lock, ...) is a lock operation itself, checked
		// by the deadlock obligations; others are assumed not to call back
		risky = false
	}
	if !risky {
		return
	}
	ts := ex.ts
	held := ex.heapGet(st, "G:held", SArray(SInt, SInt))
	rheld := ex.heapGet(st, "G:rheld", SArray(SInt, SInt))
	seen := map[*Term]bool{}
	for _, l := range append(append([]*Term{}, ex.lockTerms...), ex.rlockTerms...) {
		if seen[l] {
			continue
		}
		seen[l] = true
		key := ex.lockName(l)
		if _, isLeaf := leafs[key]; !isLeaf {
			continue
		}
		cond := ts.And(ts.Le(ts.Select(held, l), ts.Int(0)), ts.Le(ts.Select(rheld, l), ts.Int(0)))
		if cond.IsTrue() {
			continue
		}
		ex.oblige("leaflock@call", shortCallee(name)+":"+key, pos, ex.lockProps(), st, cond)
	}
}

func (ex *Exec) selfDeadlock(st *State, l *Term, cond *Term) {
	if cond.IsTrue() {
		return
	}
	pos := token.NoPos
	if ex.curFrame != nil {
		pos = ex.curFrame.fn.Pos()
	}
	ex.oblige("deadlock:self", ex.lockName(l), pos, ex.lockProps(), st, cond)
}

// lockName derives a printable, stable name from a lock term.
func (ex *Exec) lockName(l *Term) string {
	cur := l
	for cur.Op == "ite" {
		cur = cur.Args[1]
	}
	if strings.HasPrefix(cur.Op, "$f:fa!") {
		return cur.Op[len("$f:fa!"):]
	}
	if strings.HasPrefix(cur.Op, "$c:") {
		n := cur.Op[3:]
		if i := strings.Index(n, "!"); i > 0 {
			return n[:i]
		}
		return n
	}
	return "lock"
}

// ---------------------------------------------------------------------------
// builtins

func (ex *Exec) builtin(fr *Frame, st *State, bi *ssa.Builtin, cc *ssa.CallCommon, args []Value, instr ssa.Instruction, pos token.Pos) Value {
	ts := ex.ts
	var rt types.Type
	if v, ok := instr.(ssa.Value); ok {
		rt = v.Type()
	}
	switch bi.Name() {
	case "len", "cap":
		a := args[0]
		switch t := cc.Args[0].Type().Underlying().(type) {
		case *types.Slice:
			if tv, ok := a.(TV); ok {
				i := 2
				if bi.Name() == "cap" {
					i = 3
				}
				return TV{ts.SelectField(ex.tm.slice, i, tv.T)}
			}
		case *types.Basic: // string
			if tv, ok := a.(TV); ok {
				n := ex.uf("strlen", SInt, tv.T)
				ex.assume(st.PC, ts.And(ts.Ge(n, ts.Int(0)), ts.Le(n, ts.Int(1<<40))))
				return TV{n}
			}
		case *types.Map:
			m := ex.term(a, SInt, "len map")
			ex.mapIs(m, t)
			card := ex.heapGet(st, MapCardKey, SArray(SInt, SInt))
			n := ts.Ite(ts.Eq(m, ts.Int(0)), ts.Int(0), ts.Select(card, m))
			ex.assume(st.PC, ts.Ge(n, ts.Int(0)))
			return TV{n}
		case *types.Array:
			return TV{ts.Int(t.Len())}
		case *types.Pointer:
			if at, ok := t.Elem().Underlying().(*types.Array); ok {
				return TV{ts.Int(at.Len())}
			}
		}
		r := ex.fresh(st, "len", rt)
		ex.assume(st.PC, ts.Ge(r.(TV).T, ts.Int(0)))
		return r
	case "append":
		return ex.appendOp(fr, st, cc, args, rt)
	case "copy":
		if st0, ok := cc.Args[0].Type().Underlying().(*types.Slice); ok {
			es := ex.tm.SortOf(st0.Elem())
			if dv, ok := args[0].(TV); ok {
				key := ElemKey(es)
				el := ex.heapGet(st, key, SArray(SInt, SArray(SInt, es)))
				arr := ts.SelectField(ex.tm.slice, 0, dv.T)
				off := ts.SelectField(ex.tm.slice, 1, dv.T)
				ln := ts.SelectField(ex.tm.slice, 2, dv.T)
				na := ts.Fresh("copied", SArray(SInt, es))
				j := ts.BoundVar("j", SInt)
				ex.arrIs(arr, st0.Elem())
				if sv, ok := args[1].(TV); ok && sv.T.Sort.Name == "Slice" {
					// copy between slices of one element type: min(len) elements
					// move, as if read before anything was written (memmove)
					sarr := ts.SelectField(ex.tm.slice, 0, sv.T)
					soff := ts.SelectField(ex.tm.slice, 1, sv.T)
					sln := ts.SelectField(ex.tm.slice, 2, sv.T)
					ex.arrIs(sarr, st0.Elem())
					n := ts.Ite(ts.Lt(sln, ln), sln, ln)
					ex.assume(st.PC, ts.Forall([]*Term{j}, ts.And(
						ts.Implies(ts.Or(ts.Lt(j, off), ts.Ge(j, ts.Add(off, n))),
							ts.Eq(ts.Select(na, j), ts.Select(ts.Select(el, arr), j))),
						ts.Implies(ts.And(ts.Le(off, j), ts.Lt(j, ts.Add(off, n))),
							ts.Eq(ts.Select(na, j), ts.Select(ts.Select(el, sarr), ts.Add(soff, ts.Sub(j, off))))))))
					ex.heapSet(st, key, ts.Store(el, arr, na))
					return TV{n}
				}
				// copy from a string: only indices inside the destination window change
				ex.assume(st.PC, ts.Forall([]*Term{j}, ts.Implies(ts.Or(ts.Lt(j, off), ts.Ge(j, ts.Add(off, ln))),
					ts.Eq(ts.Select(na, j), ts.Select(ts.Select(el, arr), j)))))
				ex.heapSet(st, key, ts.Store(el, arr, na))
				ex.note("copy(): bytes copied from a string are not tracked")
			}
		}
		r := ex.fresh(st, "copy", rt)
		ex.assume(st.PC, ts.Ge(r.(TV).T, ts.Int(0)))
		return r
	case "delete":
		mt := cc.Args[0].Type().Underlying().(*types.Map)
		ks, _ := ex.mapSorts(mt)
		ex.mapDelete(st, mt, ex.term(args[0], SInt, "map"), ex.term(args[1], ks, "key"))
		return nil
	case "close":
		ch := ex.term(args[0], SInt, "chan")
		cl := ex.heapGet(st, "G:closed", SArray(SInt, SBool))
		if ex.safety(fr, "close") {
			ex.oblige("safety:close", "", pos, nil, st, ts.And(ts.Neq(ch, ts.Int(0)), ts.Not(ts.Select(cl, ch))))
		}
		ex.heapSet(st, "G:closed", ts.Store(cl, ch, ts.True()))
		return nil
	case "min", "max":
		acc, ok := args[0].(TV)
		if !ok {
			return ex.fresh(st, bi.Name(), rt)
		}
		for _, a := range args[1:] {
			av, ok := a.(TV)
			if !ok {
				return ex.fresh(st, bi.Name(), rt)
			}
			if bi.Name() == "min" {
				acc = TV{ts.Ite(ts.Lt(av.T, acc.T), av.T, acc.T)}
			} else {
				acc = TV{ts.Ite(ts.Lt(acc.T, av.T), av.T, acc.T)}
			}
		}
		return acc
	case "clear":
		switch t := cc.Args[0].Type().Underlying().(type) {
		case *types.Map:
			ks, _ := ex.mapSorts(t)
			m := ex.term(args[0], SInt, "map")
			dk := MapDomKey(ks, t)
			dom := ex.heapGet(st, dk, SArray(SInt, SArray(ks, SBool)))
			ex.heapSet(st, dk, ts.Store(dom, m, ts.ConstArray(SArray(ks, SBool), ts.False())))
			card := ex.heapGet(st, MapCardKey, SArray(SInt, SInt))
			ex.heapSet(st, MapCardKey, ts.Store(card, m, ts.Int(0)))
		case *types.Slice:
			ex.havocKey(st, ElemKey(ex.tm.SortOf(t.Elem())))
		}
		return nil
	case "print", "println":
		return nil
	case "recover":
		return TV{ts.Int(0)}
	case "ssa:wrapnilchk":
		return args[0]
	case "ssa:deferstack":
		return DeferStack{}
	case "new":
		if rt != nil {
			el := derefType(rt)
			r := ex.freshObject(st, "new")
			ex.store(st, TV{r}, el, TV{ex.tm.ZeroOf(el)})
			return TV{r}
		}
	}
	ex.note("builtin %s not modelled", bi.Name())
	return ex.freshResult(st, bi.Name(), rt)
}

func (ex *Exec) appendOp(fr *Frame, st *State, cc *ssa.CallCommon, args []Value, rt types.Type) Value {
	ts := ex.ts
	slt, ok := cc.Args[0].Type().Underlying().(*types.Slice)
	if !ok {
		return ex.fresh(st, "append", rt)
	}
	es := ex.tm.SortOf(slt.Elem())
	sv, ok1 := args[0].(TV)
	tv, ok2 := args[1].(TV)
	if !ok1 || !ok2 || tv.T.Sort.Name != "Slice" {
		// append([]byte, string...) etc.
		r := ex.fresh(st, "append", rt)
		if ok1 {
			ex.assume(st.PC, ts.Ge(ts.SelectField(ex.tm.slice, 2, r.(TV).T), ts.SelectField(ex.tm.slice, 2, sv.T)))
		}
		return r
	}
	key := ElemKey(es)
	el := ex.heapGet(st, key, SArray(SInt, SArray(SInt, es)))
	arr := ts.SelectField(ex.tm.slice, 0, sv.T)
	off := ts.SelectField(ex.tm.slice, 1, sv.T)
	ln := ts.SelectField(ex.tm.slice, 2, sv.T)
	cp := ts.SelectField(ex.tm.slice, 3, sv.T)
	arr2 := ts.SelectField(ex.tm.slice, 0, tv.T)
	off2 := ts.SelectField(ex.tm.slice, 1, tv.T)
	ln2 := ts.SelectField(ex.tm.slice, 2, tv.T)
	newLen := ts.Add(ln, ln2)
	fits := ts.Le(newLen, cp)
	// contents after the append, as an update of the source backing array
	src := ts.Select(el, arr)
	var content *Term
	if ln2.IsLit() && ln2.Int.IsInt64() && ln2.Int.Int64() <= 8 {
		content = src
		for i := int64(0); i < ln2.Int.Int64(); i++ {
			content = ts.Store(content, ts.Add(ts.Add(off, ln), ts.Int(i)), ts.Select(ts.Select(el, arr2), ts.Add(off2, ts.Int(i))))
		}
	} else {
		content = ts.Fresh("appended", SArray(SInt, es))
		j := ts.BoundVar("j", SInt)
		ex.assume(st.PC, ts.Forall([]*Term{j}, ts.And(
			ts.Implies(ts.Lt(j, ts.Add(off, ln)), ts.Eq(ts.Select(content, j), ts.Select(src, j))),
			ts.Implies(ts.And(ts.Le(ts.Add(off, ln), j), ts.Lt(j, ts.Add(off, newLen))),
				ts.Eq(ts.Select(content, j), ts.Select(ts.Select(el, arr2), ts.Add(off2, ts.Sub(j, ts.Add(off, ln)))))))))
	}
	na := ex.freshObject(st, "append")
	ex.arrIs(na, slt.Elem())
	ex.arrIs(arr, slt.Elem())
	ex.arrIs(arr2, slt.Elem())
	resArr := ts.Ite(fits, arr, na)
	ncap := ts.Fresh("append.cap", SInt)
	ex.assume(st.PC, ts.And(ts.Ge(ncap, newLen), ts.Le(ncap, ts.Int(1<<40))))
	// a nil slice with nothing appended stays nil; otherwise (re)allocated
	ex.heapSet(st, key, ts.Store(el, resArr, content))
	res := ts.Construct(ex.tm.slice, resArr, off, newLen, ts.Ite(fits, cp, ncap))
	if ln2.IsLit() && ln2.Int.Sign() == 0 {
		return sv
	}
	return TV{res}
}

// ---------------------------------------------------------------------------
// defers, goroutines, panics

func (ex *Exec) runDefers(fr *Frame, st *State) {
	var mine []*DeferEntry
	var rest []*DeferEntry
	for _, d := range st.Defers {
		if d.Frame == fr {
			mine = append(mine, d)
		} else {
			rest = append(rest, d)
		}
	}
	st.Defers = rest
	for i := len(mine) - 1; i >= 0; i-- {
		d := mine[i]
		if d.Armed.IsFalse() {
			continue
		}
		cc := d.Site.Common()
		if d.Armed.IsTrue() {
			ex.dispatch(fr, st, cc, d.Fn, d.Args, d.Site, d.Site.Pos())
			continue
		}
		s1 := st.Clone()
		s1.PC = ex.ts.And(st.PC, d.Armed)
		ex.dispatch(fr, s1, cc, d.Fn, d.Args, d.Site, d.Site.Pos())
		s2 := st.Clone()
		s2.PC = ex.ts.And(st.PC, ex.ts.Not(d.Armed))
		var m *State
		switch {
		case s1.PC.IsFalse():
			m = s2
		default:
			m = ex.merge2(s1, s2)
		}
		*st = *m
	}
}

func (ex *Exec) execGo(fr *Frame, st *State, g *ssa.Go) {
	cc := g.Common()
	name := calleeName(cc)
	fnv := ex.operand(fr, st, cc.Value)
	var args []Value
	for _, a := range cc.Args {
		args = append(args, ex.operand(fr, st, a))
	}
	var fn *ssa.Function
	switch f := fnv.(type) {
	case FnVal:
		fn = f.Fn
	case Closure:
		fn = f.Fn
	}
	if fn != nil {
		name = FuncName(fn)
	}
	ex.siteHooks(fr, st, g, name, args, fn, cc, true)
	if fc := ex.prog.Contracts.Funcs[name]; fc != nil {
		// the goroutine takes over the lock permissions its contract mentions
		env := ex.calleeEnv(fc, fn, cc.Signature(), args)
		if cl, ok := fnv.(Closure); ok && fn != nil {
			for i, fv := range fn.FreeVars {
				if i < len(cl.Bind) {
					env[fv.Name()] = SV{V: ex.derefBinding(st, cl.Bind[i], fv.Type()), T: derefType(fv.Type())}
				}
			}
		}
		ctx := &EvalCtx{ex: ex, st: st, old: st, env: env, pkg: fc.Pkg, fnPos: fnPos(fn)}
		if ex.full {
			for i, r := range fc.Requires {
				c, err := ctx.evalBool(r.Expr)
				if err != nil {
					ex.contractProblem("%s: requires of %s: %v", r.Pos, fc.Name, err)
					continue
				}
				ex.oblige("requires@go", fmt.Sprintf("%s:%d", shortCallee(name), i+1), g.Pos(), nil, st, c)
			}
		}
		for _, le := range fc.LockFx {
			ex.applyLockEffect(ctx, st, le)
		}
	}
	ex.note("goroutine %s verified separately (not interleaved)", shortCallee(name))
}

func (ex *Exec) derefBinding(st *State, b Value, ptrType types.Type) Value {
	return ex.load(st, b, derefType(ptrType))
}

func (ex *Exec) onPanic(fr *Frame, st *State, p *ssa.Panic) {
	if !ex.full || ex.contract == nil {
		return
	}
	if len(ex.contract.PanicsIf) == 0 && !ex.contract.Safety["nopanic"] {
		return
	}
	// a panic may only be reached under one of the declared conditions,
	// evaluated in the entry state
	ts := ex.ts
	allowed := ts.False()
	ctx := &EvalCtx{ex: ex, st: ex.entry, old: ex.entry, env: ex.entryEnv, pkg: ex.contract.Pkg, fnPos: ex.fn.Pos()}
	for _, c := range ex.contract.PanicsIf {
		t, err := ctx.evalBool(c.Expr)
		if err != nil {
			ex.contractProblem("%s: panics_if: %v", c.Pos, err)
			continue
		}
		allowed = ts.Or(allowed, t)
	}
	ex.oblige("safety:panic", "", p.Pos(), nil, st, allowed)
}

func (ex *Exec) onBlockingOp(fr *Frame, st *State, what string, pos token.Pos) {}

func (ex *Exec) siteRecv(fr *Frame, st *State, ch *Term, pos token.Pos) {
	if !ex.full || ex.contract == nil || !fr.top {
		return
	}
	for _, s := range ex.contract.Sites {
		if s.Callee != "recv" {
			continue
		}
		fr.siteOcc["recv"]++
		if s.Occ != 0 && s.Occ != fr.siteOcc["recv"] {
			continue
		}
		ex.sitesHit[fmt.Sprintf("spec:%s#%d", s.Callee, s.Occ)] = true
		env := ex.localEnv(fr, st)
		env["ch"] = SV{V: TV{ch}}
		ctx := &EvalCtx{ex: ex, st: st, old: ex.entry, env: env, oldEnv: ex.entryEnv, pkg: ex.contract.Pkg, fnPos: ex.fn.Pos()}
		for i, a := range s.Assert {
			c, err := ctx.evalBool(a.Expr)
			if err != nil {
				ex.contractProblem("%s: at recv: %v", a.Pos, err)
				continue
			}
			label := a.Label
			if label == "" {
				label = fmt.Sprintf("%d", i+1)
			}
			ex.oblige("assert@recv", label, pos, a.Props, st, c)
		}
	}
}

// ---------------------------------------------------------------------------
// loops

type loopState struct {
	held, rheld *Term
	nDefers     int
	measure     *Term
	stable      map[string]*Term // other stable ghost maps at the loop head
}

func (ex *Exec) loopSpec(fr *Frame, li *loopInfo) *LoopSpec {
	if !fr.top || ex.contract == nil || !ex.full {
		return nil
	}
	return ex.contract.Loops[li.index]
}

func (ex *Exec) enterLoop(fr *Frame, li *loopInfo, st *State) {
	ts := ex.ts
	spec := ex.loopSpec(fr, li)
	if spec != nil {
		env := ex.localEnv(fr, st)
		ctx := &EvalCtx{ex: ex, st: st, old: ex.entry, env: env, oldEnv: ex.entryEnv, pkg: ex.contract.Pkg, fnPos: ex.fn.Pos()}
		for i, inv := range spec.Invariants {
			c, err := ctx.evalBool(inv.Expr)
			if err != nil {
				ex.contractProblem("%s: loop %d invariant: %v", inv.Pos, li.index, err)
				continue
			}
			label := inv.Label
			if label == "" {
				label = fmt.Sprintf("%d", i+1)
			}
			ex.oblige("inv-entry", fmt.Sprintf("loop%d:%s", li.index, label), li.head.Instrs[0].Pos(), inv.Props, st, c)
		}
		for i, a := range spec.EntryAsserts {
			c, err := ctx.evalBool(a.Expr)
			if err != nil {
				ex.contractProblem("%s: loop %d entry: %v", a.Pos, li.index, err)
				continue
			}
			label := a.Label
			if label == "" {
				label = fmt.Sprintf("%d", i+1)
			}
			ex.oblige("assert@loop-entry", fmt.Sprintf("loop%d:%s", li.index, label), li.head.Instrs[0].Pos(), a.Props, st, c)
		}
	}
	// havoc what the body may write
	ws := KeySet{}
	cells := map[*Cell]bool{}
	hasCall := false
	for b := range li.body {
		for _, ins := range b.Instrs {
			ex.prog.Pre.instrWritesIn(fr.fn, ins, ws, li.body)
			switch x := ins.(type) {
			case *ssa.Store:
				if c := ex.rootCell(fr, x.Addr); c != nil {
					cells[c] = true
				}
			case ssa.CallInstruction:
				hasCall = true
				cc := x.Common()
				for _, callee := range ex.prog.Pre.calleesOf(fr.fn, cc) {
					ws.addAll(ex.prog.Pre.WriteSet[callee])
					// closures called in the loop may store to captured cells
					ex.closureCellWrites(fr, callee, cells, map[*ssa.Function]bool{})
				}
				// pointer arguments into local cells (inlined callees store through them)
				for _, a := range cc.Args {
					if c := ex.rootCell(fr, a); c != nil {
						cells[c] = true
					}
				}
			}
		}
	}
	_ = hasCall
	// ghost maps updated at call sites of the function under verification
	// (at call ... ghostset) may be updated by any iteration
	if fr.top && hasCall && ex.contract != nil {
		for _, s := range ex.contract.Sites {
			for _, g := range s.Ghosts {
				ws["G:"+g.Map] = true
			}
		}
	}
	ex.havocInferred(st, ws)
	for c := range cells {
		if _, ok := st.Cells[c]; !ok {
			continue
		}
		if _, isDS := st.Cells[c].(DeferStack); isDS {
			continue
		}
		if c.Type == nil {
			st.Cells[c] = Unknown{"havocked cell " + c.Name}
			continue
		}
		if _, isTV := st.Cells[c].(TV); isTV {
			st.Cells[c] = ex.fresh(st, "loop!"+c.Name, c.Type)
		} else {
			st.Cells[c] = Unknown{"havocked pointer cell " + c.Name}
		}
	}
	if spec != nil && spec.LockVariant {
		ex.havocKey(st, "G:held")
		ex.havocKey(st, "G:rheld")
	}
	st.Time++
	ls := &loopState{held: ex.heapGet(st, "G:held", SArray(SInt, SInt)), rheld: ex.heapGet(st, "G:rheld", SArray(SInt, SInt)), nDefers: len(st.Defers)}
	ls.stable = map[string]*Term{}
	for name, g := range ex.prog.Contracts.GhostMaps {
		if g.Stable && name != "held" && name != "rheld" && ws["G:"+name] {
			ls.stable[name] = ex.heapGet(st, "G:"+name, SArray(ghostSort(g.Key), ghostSort(g.Val)))
		}
	}
	if fr.loopSt == nil {
		fr.loopSt = map[*ssa.BasicBlock]*loopState{}
	}
	fr.loopSt[li.head] = ls
	if spec != nil {
		env := ex.localEnv(fr, st)
		ctx := &EvalCtx{ex: ex, st: st, old: ex.entry, env: env, oldEnv: ex.entryEnv, pkg: ex.contract.Pkg, fnPos: ex.fn.Pos()}
		for _, inv := range spec.Invariants {
			c, err := ctx.evalBool(inv.Expr)
			if err == nil {
				ex.assume(st.PC, c)
			}
		}
		if spec.Decreases != nil {
			sv, err := ctx.eval(spec.Decreases.Expr)
			if err == nil {
				if tv, ok := sv.V.(TV); ok && tv.T.Sort == SInt {
					ls.measure = tv.T
				}
			} else {
				ex.contractProblem("%s: loop %d decreases: %v", spec.Decreases.Pos, li.index, err)
			}
		}
	}
	_ = ts
}

func (ex *Exec) rootCell(fr *Frame, v ssa.Value) *Cell {
	for {
		switch x := v.(type) {
		case *ssa.Alloc:
			return fr.cells[x]
		case *ssa.FieldAddr:
			v = x.X
		case *ssa.IndexAddr:
			if _, ok := x.X.Type().Underlying().(*types.Pointer); ok {
				v = x.X
				continue
			}
			return nil
		case *ssa.FreeVar:
			if l, ok := fr.vals[x].(Loc); ok {
				return l.Cell
			}
			return nil
		case *ssa.Parameter:
			if l, ok := fr.vals[x].(Loc); ok {
				return l.Cell
			}
			return nil
		default:
			return nil
		}
	}
}

// closureCellWrites: cells of frame fr that closure fn (or closures it
// creates/calls) may store to through its free variables.
func (ex *Exec) closureCellWrites(fr *Frame, fn *ssa.Function, cells map[*Cell]bool, seen map[*ssa.Function]bool) {
	if fn == nil || seen[fn] || fn.Blocks == nil {
		return
	}
	seen[fn] = true
	if fn.Parent() == nil {
		return
	}
	// find the MakeClosure in the enclosing function(s) to map FreeVars to Allocs
	for _, b := range fn.Parent().Blocks {
		for _, ins := range b.Instrs {
			mc, ok := ins.(*ssa.MakeClosure)
			if !ok || mc.Fn != fn {
				continue
			}
			written := map[int]bool{}
			for _, fb := range fn.Blocks {
				for _, fi := range fb.Instrs {
					if s, ok := fi.(*ssa.Store); ok {
						root := s.Addr
						for {
							if fa, ok := root.(*ssa.FieldAddr); ok {
								root = fa.X
								continue
							}
							break
						}
						if fv, ok := root.(*ssa.FreeVar); ok {
							for i, f := range fn.FreeVars {
								if f == fv {
									written[i] = true
								}
							}
						}
					}
					if call, ok := fi.(ssa.CallInstruction); ok {
						// pointer args built from free variables
						for _, a := range call.Common().Args {
							if fv, ok := a.(*ssa.FreeVar); ok {
								for i, f := range fn.FreeVars {
									if f == fv {
										written[i] = true
									}
								}
							}
						}
					}
				}
			}
			for i := range written {
				if i < len(mc.Bindings) {
					if c := ex.rootCell(fr, mc.Bindings[i]); c != nil {
						cells[c] = true
					}
				}
			}
		}
	}
	for _, af := range fn.AnonFuncs {
		ex.closureCellWrites(fr, af, cells, seen)
	}
}

func (ex *Exec) backEdge(fr *Frame, li *loopInfo, st *State) {
	ts := ex.ts
	ls := fr.loopSt[li.head]
	if os.Getenv("GOVC_DEBUG") != "" {
		fmt.Fprintf(os.Stderr, "backEdge %s loop%d ls=%v heldHavocked=%v pc=%s\n", FuncName(fr.fn), li.index, ls != nil, ex.heldHavocked, truncate(ex.ts.Show(st.PC), 200))
	}
	if ls == nil {
		return
	}
	pos := li.head.Instrs[0].Pos()
	if spec := ex.loopSpec(fr, li); spec != nil {
		env := ex.localEnv(fr, st)
		ctx := &EvalCtx{ex: ex, st: st, old: ex.entry, env: env, oldEnv: ex.entryEnv, pkg: ex.contract.Pkg, fnPos: ex.fn.Pos()}
		for i, inv := range spec.Invariants {
			c, err := ctx.evalBool(inv.Expr)
			if err != nil {
				ex.contractProblem("%s: loop %d invariant: %v", inv.Pos, li.index, err)
				continue
			}
			label := inv.Label
			if label == "" {
				label = fmt.Sprintf("%d", i+1)
			}
			ex.oblige("inv-preserve", fmt.Sprintf("loop%d:%s", li.index, label), pos, inv.Props, st, c)
		}
		if spec.Decreases != nil && ls.measure != nil {
			sv, err := ctx.eval(spec.Decreases.Expr)
			if err == nil {
				if tv, ok := sv.V.(TV); ok {
					ex.oblige("decreases", fmt.Sprintf("loop%d", li.index), pos, spec.Decreases.Props, st,
						ts.And(ts.Le(ts.Int(0), ls.measure), ts.Lt(tv.T, ls.measure)))
				}
			}
		}
	}
	// the set of locks held must be the same at every iteration
	held := ex.heapGet(st, "G:held", SArray(SInt, SInt))
	rheld := ex.heapGet(st, "G:rheld", SArray(SInt, SInt))
	if spec := ex.loopSpec(fr, li); spec != nil && spec.LockVariant {
		// ... unless the loop is declared to acquire/release locks: its
		// invariants describe the ledgers
		ls.held, ls.rheld = held, rheld
	}
	var conds []*Term
	for _, l := range ex.lockTerms {
		conds = append(conds, ts.Eq(ts.Select(held, l), ts.Select(ls.held, l)))
	}
	for _, l := range ex.rlockTerms {
		conds = append(conds, ts.Eq(ts.Select(rheld, l), ts.Select(ls.rheld, l)))
	}
	if ex.heldHavocked {
		// a contract redefined the whole held map (LockPile): compare all locks
		// (pointwise, so that the quantified contracts instantiate at the
		// skolem constant of the negated goal)
		l := ts.BoundVar("l", SInt)
		if held != ls.held {
			conds = append(conds, ts.Forall([]*Term{l}, ts.Eq(ts.Select(held, l), ts.Select(ls.held, l))))
		}
		if rheld != ls.rheld {
			conds = append(conds, ts.Forall([]*Term{l}, ts.Eq(ts.Select(rheld, l), ts.Select(ls.rheld, l))))
		}
	}
	var names []string
	for name := range ls.stable {
		names = append(names, name)
	}
	sort.Strings(names)
	for _, name := range names {
		g := ex.prog.Contracts.GhostMaps[name]
		cur := ex.heapGet(st, "G:"+name, SArray(ghostSort(g.Key), ghostSort(g.Val)))
		head := ls.stable[name]
		if cur == head {
			continue
		}
		rowSort := ghostSort(g.Val)
		for _, k := range ex.ghostTouched[name] {
			if rowSort.IsArray() {
				l := ts.BoundVar("l", rowSort.Args[0])
				conds = append(conds, ts.Forall([]*Term{l}, ts.Eq(ts.Select(ts.Select(cur, k), l), ts.Select(ts.Select(head, k), l))))
			} else {
				conds = append(conds, ts.Eq(ts.Select(cur, k), ts.Select(head, k)))
			}
		}
	}
	c := ts.And(conds...)
	if !c.IsTrue() {
		ex.oblige("lockbalance@loop", fmt.Sprintf("loop%d", li.index), pos, ex.lockProps(), st, c)
	}
	if len(st.Defers) != ls.nDefers {
		ex.note("%s: defer inside loop %d", FuncName(fr.fn), li.index)
	}
}
