package main

import (
	"fmt"
	"os"
	"sort"
	"strings"
	"sync"
	"time"

	"golang.org/x/tools/go/ssa"
)

func usage() {
	fmt.Fprintln(os.Stderr, `usage:
  govc sweep  <pkg>...                 lock-balance sweep (dev)
  govc verify <pkg>... -- <func>...    verify functions with contracts (dev)
  govc dump   <pkg> <func>             print naive SSA of a function
  govc check  <Cxx> [--tier quick|thorough]
  govc list   <pkg>...                 list function names`)
	os.Exit(2)
}

func main() {
	if len(os.Args) < 2 {
		usage()
	}
	// the loader and the replay tests shell out to `go`: use the offline toolchain
	os.Setenv("PATH", "/opt/veriftools/go1.26.8/bin:"+os.Getenv("PATH"))
	os.Setenv("GOFLAGS", "-mod=mod")
	os.Setenv("GOPROXY", "off")
	os.Setenv("GOSUMDB", "off")
	os.Setenv("GOTOOLCHAIN", "local")
	switch os.Args[1] {
	case "dump":
		cmdDump(os.Args[2:])
	case "list":
		cmdList(os.Args[2:])
	case "writeset":
		// govc writeset <pkg> <func-substring> [key-substring]: callees whose write-set matches
		p := mustLoad(os.Args[2:3])
		for _, fn := range p.FuncList {
			if !strings.Contains(FuncName(fn), os.Args[3]) {
				continue
			}
			fmt.Println("==", FuncName(fn))
			for _, c := range p.Pre.possibleCallees(fn) {
				for _, k := range p.Pre.WriteSet[c].Sorted() {
					if len(os.Args) > 4 && strings.Contains(k, os.Args[4]) {
						fmt.Println("   callee", FuncName(c), "writes", k)
					}
				}
			}
			if len(os.Args) <= 4 {
				for _, k := range p.Pre.WriteSet[fn].Sorted() {
					fmt.Println("  ", k)
				}
			}
		}
	case "sweep":
		cmdSweep(os.Args[2:])
	case "verify":
		cmdVerify(os.Args[2:])
	case "check":
		os.Exit(cmdCheck(os.Args[2:]))
	case "selftest":
		os.Exit(cmdSelftest(os.Args[2:]))
	case "tryseeds":
		os.Exit(cmdTrySeeds(os.Args[2:]))
	case "baseline-locals":
		os.Exit(cmdBaselineLocals())
	case "equivtest":
		os.Exit(cmdEquivTest(os.Args[2:]))
	default:
		usage()
	}
}

func mustLoad(pkgs []string) *Program {
	t0 := time.Now()
	p, err := LoadProgram(pkgs, nil)
	if err != nil {
		fmt.Fprintln(os.Stderr, "load:", err)
		os.Exit(3)
	}
	fmt.Fprintf(os.Stderr, "loaded %d packages, %d functions in %.1fs\n", len(p.Pkgs), len(p.FuncList), time.Since(t0).Seconds())
	return p
}

func cmdDump(args []string) {
	p := mustLoad(args[:1])
	for _, fn := range p.FuncList {
		if strings.Contains(FuncName(fn), args[1]) {
			fn.WriteTo(os.Stdout)
		}
	}
}

func cmdList(args []string) {
	p := mustLoad(args)
	for _, fn := range p.FuncList {
		fmt.Println(FuncName(fn))
	}
}

// runAll verifies the functions in parallel and discharges their obligations.
func runAll(p *Program, fns []*ssa.Function, full bool, outDir string, timeoutS int, second bool) []*FuncResult {
	os.MkdirAll(outDir, 0o755)
	results := make([]*FuncResult, len(fns))
	var wg sync.WaitGroup
	sem := make(chan struct{}, 16)
	for i, fn := range fns {
		wg.Add(1)
		go func(i int, fn *ssa.Function) {
			defer wg.Done()
			sem <- struct{}{}
			defer func() { <-sem }()
			r := VerifyFunction(p, fn, full)
			for _, o := range r.Obls {
				r.ex.Discharge(o, outDir, timeoutS, second)
			}
			results[i] = r
		}(i, fn)
	}
	wg.Wait()
	return results
}

func cmdSweep(args []string) {
	verbose := false
	if len(args) > 0 && args[0] == "-v" {
		verbose = true
		args = args[1:]
	}
	p := mustLoad(args)
	t0 := time.Now()
	res := runAll(p, p.FuncList, false, "/verif/out/smt/sweep", 10, false)
	nObl, nFail := 0, 0
	for _, r := range res {
		for _, o := range r.Obls {
			nObl++
			if verbose {
				fmt.Printf("%-11s %-8s %5.2fs %s\n", o.Status, o.Solver, o.Seconds, o.ID)
			}
			if o.Status != "discharged" {
				nFail++
				fmt.Printf("FAIL %s [%s] %s %s\n", o.ID, o.Status, o.Pos, o.Query)
			}
		}
		for _, n := range r.Notes {
			if strings.HasPrefix(n, "ENGINE-PANIC") {
				fmt.Printf("PANIC %s: %s\n", r.Func, n)
			}
		}
	}
	fmt.Printf("functions=%d obligations=%d failed=%d in %.1fs\n", len(res), nObl, nFail, time.Since(t0).Seconds())
}

func cmdVerify(args []string) {
	var pkgs, names []string
	seen := false
	for _, a := range args {
		if a == "--" {
			seen = true
			continue
		}
		if seen {
			names = append(names, a)
		} else {
			pkgs = append(pkgs, a)
		}
	}
	p := mustLoad(pkgs)
	for _, pr := range p.Contracts.Problems {
		fmt.Println("CONTRACT FILE PROBLEM:", pr)
	}
	var fns []*ssa.Function
	for _, fn := range p.FuncList {
		n := FuncName(fn)
		if len(names) == 0 {
			if _, ok := p.Contracts.Funcs[n]; ok {
				fns = append(fns, fn)
			}
			continue
		}
		for _, want := range names {
			if strings.Contains(n, want) {
				fns = append(fns, fn)
			}
		}
	}
	res := runAll(p, fns, true, "/verif/out/smt/verify", 20, false)
	for _, r := range res {
		fmt.Printf("== %s (%s) full=%v\n", r.Func, r.Pos, r.Full)
		for _, o := range r.Obls {
			fmt.Printf("   %-11s %-8s %5.2fs %s\n", o.Status, o.Solver, o.Seconds, o.ID)
			if o.Status != "discharged" {
				fmt.Printf("      query: %s\n", o.Query)
				if o.Output != "" {
					fmt.Printf("      %s\n", strings.ReplaceAll(truncate(o.Output, 600), "\n", "\n      "))
				}
			}
		}
		for _, n := range r.Problems {
			fmt.Println("   PROBLEM:", n)
		}
		for _, n := range r.Notes {
			fmt.Println("   note:", n)
		}
		if len(r.Inlined) > 0 {
			fmt.Println("   inlined:", strings.Join(r.Inlined, ", "))
		}
	}
	var un []string
	for n := range p.Contracts.Funcs {
		if _, ok := p.Funcs[n]; !ok && !p.Contracts.Funcs[n].IsStub {
			un = append(un, n)
		}
	}
	sort.Strings(un)
	for _, n := range un {
		fmt.Println("UNRESOLVED CONTRACT:", n)
	}
}
