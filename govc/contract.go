package main

// Contract files: structure and parser. Contracts live in //@ comment lines of
// /repo/<pkg>/zz_contracts_verif.go (build tag verif, comment-only) and in
// /verif/stubs/*.spec for functions outside the target packages.

import (
	"fmt"
	"regexp"
	"strconv"
	"strings"

	"golang.org/x/tools/go/packages"
)

type Clause struct {
	Label string
	Expr  *SExpr
	Text  string
	Pos   string
	Props []string // property ids this clause serves (inherited from func if empty)
}

type LoopSpec struct {
	Invariants []*Clause
	Decreases  *Clause
	// LockVariant: the iterations acquire or release locks (LockPile). The
	// lock ledgers are havocked at the loop head like any other state the
	// body writes and are described by the invariants, instead of having to
	// be the same at every iteration.
	LockVariant bool
	// EntryAsserts hold when the loop is reached from outside.
	EntryAsserts []*Clause
	// Exhaustive: the loop is left only through its header.
	Exhaustive bool
	// ExitAsserts hold on every edge that leaves the loop.
	ExitAsserts []*Clause
}

type SiteSpec struct {
	Kind   string // "call"
	Callee string // name as written (last path component match)
	Occ    int    // 1-based occurrence; 0 = every occurrence
	Assert []*Clause
	Assume []*Clause // assumed just before the call (listed in the evidence)
	AssumePost []*Clause // assumed just after the call (may mention r0..)
	Ghosts     []GhostUpdate // ghost updates applied just after the call
}

type LockEffect struct {
	Expr  *SExpr
	Delta int
	Read  bool
	Cond  *SExpr // optional: effect applies only when cond (over results) holds
	Text  string
}

type ModTarget struct {
	Expr *SExpr // x.f  |  T.f (whole field)  |  ghost[key]  |  *p
	Text string
}

type GhostUpdate struct {
	Map   string
	Key   *SExpr
	Value *SExpr
	Cond  *SExpr
	Text  string
}

type FuncContract struct {
	Name      string
	IsStub    bool
	Pkg       *packages.Package
	Props     []string
	Requires  []*Clause
	Ensures   []*Clause
	Modifies  []ModTarget
	HasMod    bool
	FrameTrusted string // non-empty: reason why the declared frame is not checked
	AssumedEnsures []*Clause // usable by callers, not proved on the body (label = reason)
	Pure      bool // modifies nothing
	Loops     map[int]*LoopSpec
	Sites     []*SiteSpec
	PanicsIf  []*Clause
	Assumes   []*Clause // assumed at entry, listed in evidence with reason
	LockFx    []LockEffect
	Ghosts    []GhostUpdate // applied at return (for stubs: the call's effect)
	Safety    map[string]bool
	Inline    bool
	NoInline  bool
	NoBalance bool // exempt from default lock balance (explicit effect given)
	TrustCalls []TrustCall // callees whose preconditions are assumed, not proved, in this function
	Pos       string
	Havoc     []string // heap keys havocked by a stub
	Returns   []string // result names for stubs (r0.. default)
	Trusted   bool     // contract is assumed, body not verified (stubs)
	TrustedReason string
	Fresh     []int    // result indices that are freshly allocated
}

type TrustCall struct {
	Callee string
	Reason string
}

type PredDecl struct {
	Name   string
	Params []PredParam
	Body   *SExpr
	Pkg    *packages.Package
	Pos    string
}
type PredParam struct {
	Name string
	Type string
}

type GhostMapDecl struct {
	Name string
	Key  string // "ref", "int"
	Val  string // "int", "bool", "ref"
	Zero bool   // per-call delta ghost: zero at entry of every function
	FreshZero bool // the row of a freshly allocated object is zero
	Stable    bool // not havocked at loop heads; must be unchanged at back edges
}

type GhostFieldDecl struct {
	Type  string // struct type name
	Field string
	Sort  string
	Pkg   *packages.Package
}

type ContractSet struct {
	Funcs       map[string]*FuncContract
	Preds       map[string]*PredDecl
	GhostMaps   map[string]*GhostMapDecl
	GhostFields map[string]*GhostFieldDecl
	Files       []string
	Problems    []string
	// address-taken hints, small-type hints etc.
	CounterFields map[string]bool
	Monitors      map[string]*MonitorDecl
	LeafLocks     map[string]string // "<pkgrel>.T.lockfield" -> reason
}

var clauseKeywords = map[string]bool{
	"props": true, "requires": true, "ensures": true, "modifies": true, "loop": true, "at": true,
	"panics_if": true, "safety": true, "inline": true, "noinline": true, "assume": true,
	"lockeffect": true, "rlockeffect": true, "ghostset": true, "pure": true, "havoc": true, "fresh": true,
	"nobalance": true, "trustcall": true, "trusted": true, "guards": true, "invariant": true, "trustframe": true,
	"ensures_assumed": true,
}
var declKeywords = map[string]bool{"func": true, "stub": true, "pred": true, "ghost": true, "monitor": true, "leaflock": true}

// MonitorDecl: state guarded by one mutex field. When the lock of object x is
// acquired, the guarded fields of x are havocked (other threads may have
// changed them) and the invariant is assumed; when it is released, the
// invariant is an obligation.
type MonitorDecl struct {
	Key      string // "<pkgrel>.T.lockfield"
	TypeName string
	Pkg      *packages.Package
	Props    []string
	Guards   []string // field names of T
	Inv      []*Clause
	Assumes  []*Clause // assumed at acquisition only (label = reason), never proved
	Pos      string
}

var labelRe = regexp.MustCompile(`^([A-Za-z0-9_\-]+):([^:]|$)`)

func LoadContracts(p *Program) (*ContractSet, error) {
	cs := &ContractSet{Funcs: map[string]*FuncContract{}, Preds: map[string]*PredDecl{}, GhostMaps: map[string]*GhostMapDecl{},
		GhostFields: map[string]*GhostFieldDecl{}, CounterFields: map[string]bool{}}
	cs.GhostMaps["held"] = &GhostMapDecl{Name: "held", Key: "ref", Val: "int", Zero: true, Stable: true}
	cs.GhostMaps["rheld"] = &GhostMapDecl{Name: "rheld", Key: "ref", Val: "int", Zero: true, Stable: true}
	cs.GhostMaps["closed"] = &GhostMapDecl{Name: "closed", Key: "ref", Val: "bool"}
	// sent(ch): number of values the call under verification has sent on ch
	cs.GhostMaps["sent"] = &GhostMapDecl{Name: "sent", Key: "ref", Val: "int", Zero: true}
	// recvd(ch): number of receive operations the call has completed on ch
	cs.GhostMaps["recvd"] = &GhostMapDecl{Name: "recvd", Key: "ref", Val: "int", Zero: true}
	for _, src := range p.contractSources() {
		cs.Files = append(cs.Files, src.File)
		if !src.CommentOnly {
			cs.Problems = append(cs.Problems, fmt.Sprintf("%s: contract file contains declarations; it must be comment-only", src.File))
		}
		if err := cs.parseSource(src); err != nil {
			return nil, err
		}
	}
	return cs, nil
}

type rawDecl struct {
	head    contractLine
	clauses []rawClause
}
type rawClause struct {
	kw   string
	text string
	pos  string
}

func (cs *ContractSet) parseSource(src contractSource) error {
	var decls []*rawDecl
	var cur *rawDecl
	for _, l := range src.Lines {
		t := strings.TrimSpace(l.Text)
		if t == "" || strings.HasPrefix(t, "//") {
			continue
		}
		first := t
		if i := strings.IndexAny(t, " \t"); i >= 0 {
			first = t[:i]
		}
		rest := strings.TrimSpace(strings.TrimPrefix(t, first))
		switch {
		case declKeywords[first]:
			cur = &rawDecl{head: contractLine{Text: t, Pos: l.Pos}}
			decls = append(decls, cur)
		case clauseKeywords[first] && cur != nil:
			cur.clauses = append(cur.clauses, rawClause{kw: first, text: rest, pos: l.Pos})
		default:
			if cur == nil {
				return fmt.Errorf("%s: text outside declaration: %q", l.Pos, t)
			}
			if len(cur.clauses) == 0 {
				cur.head.Text += " " + t
			} else {
				cur.clauses[len(cur.clauses)-1].text += " " + t
			}
		}
	}
	for _, d := range decls {
		if err := cs.parseDecl(src, d); err != nil {
			return err
		}
	}
	return nil
}

func splitReason(s string) (string, string) {
	if i := strings.Index(s, " -- "); i >= 0 {
		return strings.TrimSpace(s[:i]), strings.TrimSpace(s[i+4:])
	}
	return s, ""
}

func (cs *ContractSet) parseDecl(src contractSource, d *rawDecl) error {
	fields := strings.Fields(d.head.Text)
	kw := fields[0]
	rest := strings.TrimSpace(strings.TrimPrefix(d.head.Text, kw))
	switch kw {
	case "pred":
		// pred name(p T, q U) := expr
		m := regexp.MustCompile(`^([A-Za-z_][A-Za-z0-9_]*)\s*\(([^)]*)\)\s*:=\s*(.*)$`).FindStringSubmatch(rest)
		if m == nil {
			return fmt.Errorf("%s: malformed pred: %s", d.head.Pos, rest)
		}
		pd := &PredDecl{Name: m[1], Pkg: src.Pkg, Pos: d.head.Pos}
		if strings.TrimSpace(m[2]) != "" {
			for _, ps := range strings.Split(m[2], ",") {
				ps = strings.TrimSpace(ps)
				i := strings.IndexAny(ps, " \t")
				if i < 0 {
					return fmt.Errorf("%s: pred param needs a type: %s", d.head.Pos, ps)
				}
				pd.Params = append(pd.Params, PredParam{Name: ps[:i], Type: strings.TrimSpace(ps[i:])})
			}
		}
		e, err := ParseSExpr(m[3])
		if err != nil {
			return fmt.Errorf("%s: pred %s: %v", d.head.Pos, pd.Name, err)
		}
		pd.Body = e
		cs.Preds[pd.Name] = pd
		return nil
	case "ghost":
		// ghost map name(ref) int [zero]   |  ghost field T.f int|bool|ref
		f := strings.Fields(rest)
		if len(f) >= 3 && f[0] == "map" {
			m := regexp.MustCompile(`^([A-Za-z_][A-Za-z0-9_]*)\((\w+)\)$`).FindStringSubmatch(f[1])
			if m == nil {
				return fmt.Errorf("%s: malformed ghost map: %s", d.head.Pos, rest)
			}
			g := &GhostMapDecl{Name: m[1], Key: m[2], Val: f[2]}
			for _, flag := range f[3:] {
				switch flag {
				case "zero":
					g.Zero = true
				case "freshzero":
					g.FreshZero = true
				case "stable":
					g.Stable = true
				case "--":
				default:
					if strings.HasPrefix(flag, "--") {
						break
					}
				}
				if strings.HasPrefix(flag, "--") {
					break
				}
			}
			cs.GhostMaps[g.Name] = g
			return nil
		}
		if len(f) >= 3 && f[0] == "field" {
			parts := strings.SplitN(f[1], ".", 2)
			if len(parts) != 2 {
				return fmt.Errorf("%s: malformed ghost field: %s", d.head.Pos, rest)
			}
			g := &GhostFieldDecl{Type: parts[0], Field: parts[1], Sort: f[2], Pkg: src.Pkg}
			pk := ""
			if src.Pkg != nil {
				pk = relPkg(src.Pkg.PkgPath)
			}
			cs.GhostFields[pk+"."+f[1]] = g
			return nil
		}
		return fmt.Errorf("%s: malformed ghost declaration: %s", d.head.Pos, rest)
	case "leaflock":
		// leaflock T.lockfield -- reason: innermost lock of the lock order
		if src.Pkg == nil {
			return fmt.Errorf("%s: leaflock outside a package", d.head.Pos)
		}
		name, reason := splitReason(rest)
		if cs.LeafLocks == nil {
			cs.LeafLocks = map[string]string{}
		}
		cs.LeafLocks[relPkg(src.Pkg.PkgPath)+"."+strings.TrimSpace(name)] = reason
		return nil
	case "monitor":
		// monitor T.lockfield / props ... / guards f g / invariant expr (over `this`)
		parts := strings.SplitN(strings.TrimSpace(rest), ".", 2)
		if len(parts) != 2 || src.Pkg == nil {
			return fmt.Errorf("%s: malformed monitor declaration: %s", d.head.Pos, rest)
		}
		md := &MonitorDecl{Key: relPkg(src.Pkg.PkgPath) + "." + strings.TrimSpace(rest), TypeName: parts[0], Pkg: src.Pkg, Pos: d.head.Pos}
		for _, c := range d.clauses {
			switch c.kw {
			case "props":
				md.Props = append(md.Props, strings.Fields(c.text)...)
			case "guards":
				md.Guards = append(md.Guards, strings.Fields(c.text)...)
			case "invariant":
				cl, err := parseLabeled(c.text, c.pos)
				if err != nil {
					return fmt.Errorf("%s: monitor %s: %v", c.pos, md.Key, err)
				}
				md.Inv = append(md.Inv, cl)
			case "assume":
				cl, err := parseLabeled(c.text, c.pos)
				if err != nil {
					return fmt.Errorf("%s: monitor %s: %v", c.pos, md.Key, err)
				}
				_, reason := splitReason(c.text)
				cl.Label = reason
				md.Assumes = append(md.Assumes, cl)
			default:
				return fmt.Errorf("%s: monitor %s: unknown clause %q", c.pos, md.Key, c.kw)
			}
		}
		if cs.Monitors == nil {
			cs.Monitors = map[string]*MonitorDecl{}
		}
		cs.Monitors[md.Key] = md
		return nil
	case "func", "stub":
		name := strings.TrimSpace(rest)
		fc := &FuncContract{Name: name, IsStub: kw == "stub", Pkg: src.Pkg, Loops: map[int]*LoopSpec{}, Safety: map[string]bool{}, Pos: d.head.Pos}
		if kw == "stub" {
			fc.Trusted = true
		}
		if kw == "func" && src.Pkg != nil && !strings.Contains(name, "/") {
			// names in a package contract file are relative to the package
			fc.Name = relPkg(src.Pkg.PkgPath) + "." + name
			// ssa prints methods as (*pkg.T).M: move package inside parens
			if strings.HasPrefix(name, "(") {
				inner := name[1:]
				star := ""
				if strings.HasPrefix(inner, "*") {
					star = "*"
					inner = inner[1:]
				}
				fc.Name = "(" + star + relPkg(src.Pkg.PkgPath) + "." + inner
			}
		}
		for _, c := range d.clauses {
			if err := cs.parseClause(fc, c); err != nil {
				return fmt.Errorf("%s: %s: %v", c.pos, fc.Name, err)
			}
		}
		if old, dup := cs.Funcs[fc.Name]; dup {
			return fmt.Errorf("%s: duplicate contract for %s (first at %s)", d.head.Pos, fc.Name, old.Pos)
		}
		cs.Funcs[fc.Name] = fc
		return nil
	}
	return fmt.Errorf("%s: unknown declaration %q", d.head.Pos, kw)
}

func parseLabeled(text, pos string) (*Clause, error) {
	text, _ = splitReason(text)
	label := ""
	propTags := []string{}
	// optional [C01,C02] tag
	if strings.HasPrefix(text, "[") {
		if i := strings.Index(text, "]"); i > 0 {
			for _, p := range strings.Split(text[1:i], ",") {
				propTags = append(propTags, strings.TrimSpace(p))
			}
			text = strings.TrimSpace(text[i+1:])
		}
	}
	if m := labelRe.FindStringSubmatch(text); m != nil {
		label = m[1]
		text = strings.TrimSpace(text[len(m[1])+1:])
	}
	e, err := ParseSExpr(text)
	if err != nil {
		return nil, fmt.Errorf("in %q: %v", text, err)
	}
	return &Clause{Label: label, Expr: e, Text: text, Pos: pos, Props: propTags}, nil
}

func (cs *ContractSet) parseClause(fc *FuncContract, c rawClause) error {
	switch c.kw {
	case "props":
		fc.Props = append(fc.Props, strings.Fields(c.text)...)
	case "requires":
		cl, err := parseLabeled(c.text, c.pos)
		if err != nil {
			return err
		}
		fc.Requires = append(fc.Requires, cl)
	case "ensures":
		cl, err := parseLabeled(c.text, c.pos)
		if err != nil {
			return err
		}
		fc.Ensures = append(fc.Ensures, cl)
	case "ensures_assumed":
		// a postcondition callers may use but that is not proved on the body
		// (listed as an assumption): ensures_assumed expr -- reason
		text, reason := splitReason(c.text)
		cl, err := parseLabeled(text, c.pos)
		if err != nil {
			return err
		}
		cl.Label = reason
		fc.AssumedEnsures = append(fc.AssumedEnsures, cl)
	case "panics_if":
		cl, err := parseLabeled(c.text, c.pos)
		if err != nil {
			return err
		}
		fc.PanicsIf = append(fc.PanicsIf, cl)
	case "assume":
		cl, err := parseLabeled(c.text, c.pos)
		if err != nil {
			return err
		}
		_, reason := splitReason(c.text)
		cl.Label = reason
		fc.Assumes = append(fc.Assumes, cl)
	case "trustframe":
		// the declared frame is assumed, not proved (listed in the evidence)
		_, fc.FrameTrusted = splitReason("x " + c.text)
		if fc.FrameTrusted == "" {
			fc.FrameTrusted = "no reason given"
		}
	case "pure":
		fc.Pure = true
		fc.HasMod = true
	case "modifies":
		fc.HasMod = true
		for _, part := range splitTop(c.text, ',') {
			part = strings.TrimSpace(part)
			if part == "" || part == "nothing" {
				continue
			}
			e, err := ParseSExpr(part)
			if err != nil {
				return err
			}
			fc.Modifies = append(fc.Modifies, ModTarget{Expr: e, Text: part})
		}
	case "havoc":
		keys, _ := splitReason(c.text)
		fc.Havoc = append(fc.Havoc, strings.Fields(keys)...)
	case "fresh":
		for _, f := range strings.Fields(c.text) {
			n, err := strconv.Atoi(strings.TrimPrefix(f, "r"))
			if err != nil {
				return fmt.Errorf("fresh wants result names r0..: %s", f)
			}
			fc.Fresh = append(fc.Fresh, n)
		}
	case "lockeffect", "rlockeffect":
		// lockeffect <expr> +1 [if <cond>]
		text := c.text
		var cond *SExpr
		if i := strings.Index(text, " if "); i >= 0 {
			ce, err := ParseSExpr(text[i+4:])
			if err != nil {
				return err
			}
			cond = ce
			text = text[:i]
		}
		text = strings.TrimSpace(text)
		i := strings.LastIndexAny(text, " \t")
		if i < 0 {
			return fmt.Errorf("lockeffect wants: <lock expr> +1|-1")
		}
		delta, err := strconv.Atoi(strings.TrimSpace(text[i:]))
		if err != nil {
			return fmt.Errorf("lockeffect delta: %v", err)
		}
		e, err := ParseSExpr(text[:i])
		if err != nil {
			return err
		}
		fc.LockFx = append(fc.LockFx, LockEffect{Expr: e, Delta: delta, Read: c.kw == "rlockeffect", Cond: cond, Text: c.text})
	case "ghostset":
		// ghostset name[key] = value [if cond]
		text := c.text
		var cond *SExpr
		if i := strings.Index(text, " if "); i >= 0 {
			ce, err := ParseSExpr(text[i+4:])
			if err != nil {
				return err
			}
			cond = ce
			text = text[:i]
		}
		m := regexp.MustCompile(`^([A-Za-z_][A-Za-z0-9_]*)\[(.*?)\]\s*=\s*(.*)$`).FindStringSubmatch(strings.TrimSpace(text))
		if m == nil {
			return fmt.Errorf("ghostset wants: name[key] = value")
		}
		k, err := ParseSExpr(m[2])
		if err != nil {
			return err
		}
		v, err := ParseSExpr(m[3])
		if err != nil {
			return err
		}
		fc.Ghosts = append(fc.Ghosts, GhostUpdate{Map: m[1], Key: k, Value: v, Cond: cond, Text: c.text})
	case "safety":
		for _, f := range strings.Fields(c.text) {
			fc.Safety[f] = true
		}
	case "inline":
		fc.Inline = true
	case "noinline":
		fc.NoInline = true
	case "nobalance":
		fc.NoBalance = true
	case "trusted":
		// the body is not verified against this contract; it is an assumption
		fc.Trusted = true
		_, fc.TrustedReason = splitReason("x " + c.text)
	case "trustcall":
		text, reason := splitReason(c.text)
		for _, f := range strings.Fields(text) {
			fc.TrustCalls = append(fc.TrustCalls, TrustCall{Callee: f, Reason: reason})
		}
	case "loop":
		// loop N invariant expr | loop N decreases expr
		f := strings.Fields(c.text)
		if len(f) == 2 && f[1] == "lockvariant" {
			n, err := strconv.Atoi(f[0])
			if err != nil {
				return fmt.Errorf("loop index: %v", err)
			}
			if fc.Loops[n] == nil {
				fc.Loops[n] = &LoopSpec{}
			}
			fc.Loops[n].LockVariant = true
			return nil
		}
		if len(f) >= 2 && f[1] == "exhaustive" {
			// loop N exhaustive [-- label]: the loop is only left through its
			// header (the range is exhausted / the condition is false), never
			// by break, return or goto from its body
			n, err := strconv.Atoi(f[0])
			if err != nil {
				return fmt.Errorf("loop index: %v", err)
			}
			if fc.Loops[n] == nil {
				fc.Loops[n] = &LoopSpec{}
			}
			fc.Loops[n].Exhaustive = true
			return nil
		}
		if len(f) < 3 {
			return fmt.Errorf("malformed loop clause")
		}
		n, err := strconv.Atoi(f[0])
		if err != nil {
			return fmt.Errorf("loop index: %v", err)
		}
		body := strings.TrimSpace(strings.TrimPrefix(strings.TrimSpace(strings.TrimPrefix(c.text, f[0])), f[1]))
		cl, err := parseLabeled(body, c.pos)
		if err != nil {
			return err
		}
		ls := fc.Loops[n]
		if ls == nil {
			ls = &LoopSpec{}
			fc.Loops[n] = ls
		}
		switch f[1] {
		case "invariant":
			ls.Invariants = append(ls.Invariants, cl)
		case "decreases":
			ls.Decreases = cl
		case "entry":
			// loop N entry expr: holds when the loop is reached (an
			// obligation there; unlike an invariant it is neither assumed at
			// the head nor required of the iterations)
			ls.EntryAsserts = append(ls.EntryAsserts, cl)
		case "exit":
			// loop N exit expr: holds whenever the loop is left (through its
			// header, by break or by return)
			ls.ExitAsserts = append(ls.ExitAsserts, cl)
		default:
			return fmt.Errorf("unknown loop clause %q", f[1])
		}
	case "at":
		// at call NAME#k assert|assume expr
		f := strings.Fields(c.text)
		if len(f) < 4 || f[0] != "call" {
			return fmt.Errorf("malformed at clause (want: at call NAME#k assert|assume expr)")
		}
		callee := f[1]
		occ := 0
		if i := strings.LastIndex(callee, "#"); i >= 0 {
			n, err := strconv.Atoi(callee[i+1:])
			if err != nil {
				return fmt.Errorf("call occurrence: %v", err)
			}
			occ = n
			callee = callee[:i]
		}
		idx := strings.Index(c.text, f[2])
		body := strings.TrimSpace(c.text[idx+len(f[2]):])
		var site *SiteSpec
		for _, s := range fc.Sites {
			if s.Callee == callee && s.Occ == occ {
				site = s
			}
		}
		if site == nil {
			site = &SiteSpec{Kind: "call", Callee: callee, Occ: occ}
			fc.Sites = append(fc.Sites, site)
		}
		if f[2] == "ghostset" {
			// ghost bookkeeping tied to this call site: name[key] = value,
			// applied just after the call
			m := regexp.MustCompile(`^([A-Za-z_][A-Za-z0-9_]*)\[(.*?)\]\s*=\s*(.*)$`).FindStringSubmatch(body)
			if m == nil {
				return fmt.Errorf("at call ... ghostset wants: name[key] = value")
			}
			k, err := ParseSExpr(m[2])
			if err != nil {
				return err
			}
			v, err := ParseSExpr(m[3])
			if err != nil {
				return err
			}
			site.Ghosts = append(site.Ghosts, GhostUpdate{Map: m[1], Key: k, Value: v, Text: body})
			return nil
		}
		cl, err := parseLabeled(body, c.pos)
		if err != nil {
			return err
		}
		switch f[2] {
		case "assert":
			site.Assert = append(site.Assert, cl)
		case "assume":
			_, reason := splitReason(body)
			cl.Label = reason
			site.Assume = append(site.Assume, cl)
		case "assume_post":
			_, reason := splitReason(body)
			cl.Label = reason
			site.AssumePost = append(site.AssumePost, cl)
		default:
			return fmt.Errorf("at call: want assert or assume, got %q", f[2])
		}
	default:
		return fmt.Errorf("unknown clause %q", c.kw)
	}
	return nil
}

// splitTop splits s at sep outside brackets.
func splitTop(s string, sep byte) []string {
	var out []string
	depth := 0
	start := 0
	for i := 0; i < len(s); i++ {
		switch s[i] {
		case '(', '[':
			depth++
		case ')', ']':
			depth--
		default:
			if s[i] == sep && depth == 0 {
				out = append(out, s[start:i])
				start = i + 1
			}
		}
	}
	out = append(out, s[start:])
	return out
}

// ---------------------------------------------------------------------------
// Spec expressions

type SExpr struct {
	Kind string // ident, int, str, nil, bool, unary, binary, field, index, call, old, forall, exists, ite, deref, addr
	Name string // identifier / operator / field name
	Val  string
	Args []*SExpr
	// quantifier vars
	Vars []PredParam
}

func (e *SExpr) String() string {
	switch e.Kind {
	case "ident":
		return e.Name
	case "int", "str":
		return e.Val
	case "nil":
		return "nil"
	case "bool":
		return e.Val
	case "unary":
		return e.Name + e.Args[0].String()
	case "binary":
		return "(" + e.Args[0].String() + " " + e.Name + " " + e.Args[1].String() + ")"
	case "field":
		return e.Args[0].String() + "." + e.Name
	case "index":
		return e.Args[0].String() + "[" + e.Args[1].String() + "]"
	case "call":
		var as []string
		for _, a := range e.Args {
			as = append(as, a.String())
		}
		return e.Name + "(" + strings.Join(as, ", ") + ")"
	case "forall", "exists":
		var vs []string
		for _, v := range e.Vars {
			vs = append(vs, v.Name+" "+v.Type)
		}
		return e.Kind + " " + strings.Join(vs, ", ") + " :: " + e.Args[0].String()
	}
	return "?" + e.Kind
}

type tok struct {
	k string // ident int str op eof
	s string
}

func lexSpec(s string) ([]tok, error) {
	var out []tok
	i := 0
	for i < len(s) {
		c := s[i]
		switch {
		case c == ' ' || c == '\t' || c == '\n':
			i++
		case c >= '0' && c <= '9':
			j := i
			for j < len(s) && (s[j] >= '0' && s[j] <= '9' || s[j] >= 'a' && s[j] <= 'f' || s[j] >= 'A' && s[j] <= 'F' || s[j] == 'x' || s[j] == 'X' || s[j] == '_') {
				j++
			}
			out = append(out, tok{"int", s[i:j]})
			i = j
		case c == '_' || c >= 'a' && c <= 'z' || c >= 'A' && c <= 'Z':
			j := i
			for j < len(s) && (s[j] == '_' || s[j] >= 'a' && s[j] <= 'z' || s[j] >= 'A' && s[j] <= 'Z' || s[j] >= '0' && s[j] <= '9') {
				j++
			}
			out = append(out, tok{"ident", s[i:j]})
			i = j
		case c == '"':
			j := i + 1
			for j < len(s) && s[j] != '"' {
				if s[j] == '\\' {
					j++
				}
				j++
			}
			if j >= len(s) {
				return nil, fmt.Errorf("unterminated string")
			}
			out = append(out, tok{"str", s[i : j+1]})
			i = j + 1
		default:
			ops := []string{"<==>", "==>", "&&", "||", "==", "!=", "<=", ">=", "<<", ">>", "&^", "::", "<", ">", "+", "-", "*", "/", "%", "&", "|", "^", "!", "(", ")", "[", "]", ".", ",", ":"}
			matched := false
			for _, op := range ops {
				if strings.HasPrefix(s[i:], op) {
					out = append(out, tok{"op", op})
					i += len(op)
					matched = true
					break
				}
			}
			if !matched {
				return nil, fmt.Errorf("unexpected character %q", c)
			}
		}
	}
	out = append(out, tok{"eof", ""})
	return out, nil
}

type sparser struct {
	toks []tok
	pos  int
}

func ParseSExpr(s string) (*SExpr, error) {
	toks, err := lexSpec(s)
	if err != nil {
		return nil, err
	}
	p := &sparser{toks: toks}
	e, err := p.parseExpr()
	if err != nil {
		return nil, err
	}
	if p.peek().k != "eof" {
		return nil, fmt.Errorf("trailing input at %q", p.peek().s)
	}
	return e, nil
}

func (p *sparser) peek() tok { return p.toks[p.pos] }
func (p *sparser) next() tok  { t := p.toks[p.pos]; p.pos++; return t }
func (p *sparser) isOp(s string) bool {
	t := p.peek()
	return t.k == "op" && t.s == s
}
func (p *sparser) expectOp(s string) error {
	if !p.isOp(s) {
		return fmt.Errorf("expected %q, got %q", s, p.peek().s)
	}
	p.pos++
	return nil
}

func (p *sparser) parseExpr() (*SExpr, error) {
	t := p.peek()
	if t.k == "ident" && (t.s == "forall" || t.s == "exists") {
		p.next()
		var vars []PredParam
		for {
			nt := p.next()
			if nt.k != "ident" {
				return nil, fmt.Errorf("quantifier variable expected")
			}
			// type: tokens until ',' or '::'
			var ty strings.Builder
			for !p.isOp(",") && !p.isOp("::") && p.peek().k != "eof" {
				ty.WriteString(p.next().s)
			}
			vars = append(vars, PredParam{Name: nt.s, Type: ty.String()})
			if p.isOp(",") {
				p.next()
				continue
			}
			break
		}
		if err := p.expectOp("::"); err != nil {
			return nil, err
		}
		// variables declared without a type share the next declared type
		for i := len(vars) - 2; i >= 0; i-- {
			if vars[i].Type == "" {
				vars[i].Type = vars[i+1].Type
			}
		}
		body, err := p.parseExpr()
		if err != nil {
			return nil, err
		}
		return &SExpr{Kind: t.s, Vars: vars, Args: []*SExpr{body}}, nil
	}
	return p.parseIff()
}

func (p *sparser) parseIff() (*SExpr, error) {
	l, err := p.parseImp()
	if err != nil {
		return nil, err
	}
	for p.isOp("<==>") {
		p.next()
		r, err := p.parseImp()
		if err != nil {
			return nil, err
		}
		l = &SExpr{Kind: "binary", Name: "<==>", Args: []*SExpr{l, r}}
	}
	return l, nil
}

func (p *sparser) parseImp() (*SExpr, error) {
	l, err := p.parseOr()
	if err != nil {
		return nil, err
	}
	if p.isOp("==>") {
		p.next()
		var r *SExpr
		if t := p.peek(); t.k == "ident" && (t.s == "forall" || t.s == "exists") {
			r, err = p.parseExpr()
		} else {
			r, err = p.parseImp()
		}
		if err != nil {
			return nil, err
		}
		return &SExpr{Kind: "binary", Name: "==>", Args: []*SExpr{l, r}}, nil
	}
	return l, nil
}

func (p *sparser) binLevel(ops []string, sub func() (*SExpr, error)) (*SExpr, error) {
	l, err := sub()
	if err != nil {
		return nil, err
	}
	for {
		matched := false
		for _, op := range ops {
			if p.isOp(op) {
				p.next()
				var r *SExpr
				if t := p.peek(); (op == "&&" || op == "||") && t.k == "ident" && (t.s == "forall" || t.s == "exists") {
					r, err = p.parseExpr()
				} else {
					r, err = sub()
				}
				if err != nil {
					return nil, err
				}
				l = &SExpr{Kind: "binary", Name: op, Args: []*SExpr{l, r}}
				matched = true
				break
			}
		}
		if !matched {
			return l, nil
		}
	}
}

func (p *sparser) parseOr() (*SExpr, error) {
	return p.binLevel([]string{"||"}, p.parseAnd)
}
func (p *sparser) parseAnd() (*SExpr, error) {
	return p.binLevel([]string{"&&"}, p.parseCmp)
}
func (p *sparser) parseCmp() (*SExpr, error) {
	l, err := p.parseAdd()
	if err != nil {
		return nil, err
	}
	for _, op := range []string{"==", "!=", "<=", ">=", "<", ">"} {
		if p.isOp(op) {
			p.next()
			r, err := p.parseAdd()
			if err != nil {
				return nil, err
			}
			return &SExpr{Kind: "binary", Name: op, Args: []*SExpr{l, r}}, nil
		}
	}
	if t := p.peek(); t.k == "ident" && t.s == "in" {
		p.next()
		r, err := p.parseAdd()
		if err != nil {
			return nil, err
		}
		return &SExpr{Kind: "binary", Name: "in", Args: []*SExpr{l, r}}, nil
	}
	return l, nil
}
func (p *sparser) parseAdd() (*SExpr, error) {
	return p.binLevel([]string{"+", "-", "|", "^"}, p.parseMul)
}
func (p *sparser) parseMul() (*SExpr, error) {
	return p.binLevel([]string{"*", "/", "%", "&^", "&", "<<", ">>"}, p.parseUnary)
}

func (p *sparser) parseUnary() (*SExpr, error) {
	for _, op := range []string{"!", "-", "^", "*", "&"} {
		if p.isOp(op) {
			p.next()
			a, err := p.parseUnary()
			if err != nil {
				return nil, err
			}
			return &SExpr{Kind: "unary", Name: op, Args: []*SExpr{a}}, nil
		}
	}
	return p.parsePostfix()
}

func (p *sparser) parsePostfix() (*SExpr, error) {
	e, err := p.parsePrimary()
	if err != nil {
		return nil, err
	}
	for {
		switch {
		case p.isOp("."):
			p.next()
			t := p.next()
			if t.k != "ident" {
				return nil, fmt.Errorf("field name expected after '.'")
			}
			e = &SExpr{Kind: "field", Name: t.s, Args: []*SExpr{e}}
		case p.isOp("["):
			p.next()
			i, err := p.parseExpr()
			if err != nil {
				return nil, err
			}
			if err := p.expectOp("]"); err != nil {
				return nil, err
			}
			e = &SExpr{Kind: "index", Args: []*SExpr{e, i}}
		case p.isOp("(") && (e.Kind == "ident" || e.Kind == "field"):
			p.next()
			var args []*SExpr
			for !p.isOp(")") {
				a, err := p.parseExpr()
				if err != nil {
					return nil, err
				}
				args = append(args, a)
				if p.isOp(",") {
					p.next()
				} else {
					break
				}
			}
			if err := p.expectOp(")"); err != nil {
				return nil, err
			}
			name := e.Name
			if e.Kind == "field" {
				name = e.Args[0].String() + "." + e.Name
			}
			e = &SExpr{Kind: "call", Name: name, Args: args}
		default:
			return e, nil
		}
	}
}

func (p *sparser) parsePrimary() (*SExpr, error) {
	t := p.next()
	switch t.k {
	case "int":
		return &SExpr{Kind: "int", Val: strings.ReplaceAll(t.s, "_", "")}, nil
	case "str":
		return &SExpr{Kind: "str", Val: t.s}, nil
	case "ident":
		switch t.s {
		case "nil":
			return &SExpr{Kind: "nil"}, nil
		case "true", "false":
			return &SExpr{Kind: "bool", Val: t.s}, nil
		}
		return &SExpr{Kind: "ident", Name: t.s}, nil
	case "op":
		if t.s == "(" {
			e, err := p.parseExpr()
			if err != nil {
				return nil, err
			}
			if err := p.expectOp(")"); err != nil {
				return nil, err
			}
			return e, nil
		}
	}
	return nil, fmt.Errorf("unexpected token %q", t.s)
}
