package main

// Symbolic executor over naive-form SSA with state merging, loop cutting and
// modular treatment of calls. One Exec verifies one function.

import (
	"fmt"
	"go/constant"
	"go/token"
	"go/types"
	"math/big"
	"sort"
	"strings"

	"golang.org/x/tools/go/ssa"
)

type Obligation struct {
	ID      string
	Kind    string
	Func    string
	Desc    string
	Pos     string
	Props   []string
	NAssume int
	PC      *Term
	Cond    *Term
	// MustBeSat obligations are vacuity guards: the query (assumes ∧ PC ∧ Cond) must be satisfiable.
	MustBeSat bool
	// results
	Status  string // discharged | failed | unknown | error
	Solver  string
	Seconds float64
	Model   string
	Output  string
	Query   string
}

type Exec struct {
	prog     *Program
	ts       *TermStore
	tm       *TypeMap
	fn       *ssa.Function
	contract *FuncContract
	full     bool // contract mode (requires/ensures/...); otherwise lock-balance sweep only
	assumes  []*Term
	obls     []*Obligation
	notes    map[string]bool
	init     map[string]*Term
	cellSeq  int
	deferSeq int
	rangeSeen map[int]bool
	addrSeen  map[int]bool
	kindIDs   map[string]int
	typeIDs   map[string]int
	ifx       *ifaceFacts
	// calleeBind: bindings of the closure whose contract is being applied
	calleeBind []Value
	strIDs    map[string]int
	entry     *State
	entryEnv  map[string]SV
	oblNames  map[string]int
	lockTerms []*Term
	rlockTerms []*Term
	ghostTouched map[string][]*Term
	inlineDepth int
	usedStubs map[string]bool
	inlined   map[string]bool
	havocked  map[string]bool
	assumedClauses []string
	loopCount int
	curFrame  *Frame
	siteOcc   map[string]int
	siteIndex map[ssa.Instruction]siteInfo
	heldHavocked bool
	// monitors whose lock was acquired (guarded fields were havocked)
	monitorsAcquired map[string]bool
	// objects allocated by the function under verification itself (isnew)
	ownAllocs    []*Term
	ownAllocType map[*Term]types.Type // element type, for allocations of variables and composite literals
	topFrame     *Frame
	siteQualified map[ssa.Instruction]map[string]int
	sitesHit  map[string]bool
}

type Frame struct {
	fn      *ssa.Function
	vals    map[ssa.Value]Value
	cells   map[*ssa.Alloc]*Cell
	bind    []Value
	top     bool
	depth   int
	retSts  []*State
	retVals [][]Value
	named   map[string]*Cell
	namedAll map[string][]*Cell // every variable of a name, in declaration order
	edge    map[[2]int]*State
	loopIdx map[*ssa.BasicBlock]int
	siteOcc map[string]int
	loopSt  map[*ssa.BasicBlock]*loopState
}

func NewExec(p *Program, fn *ssa.Function, fc *FuncContract, full bool) *Exec {
	ts := NewTermStore()
	ex := &Exec{prog: p, ts: ts, tm: NewTypeMap(p, ts), fn: fn, contract: fc, full: full, notes: map[string]bool{}, init: map[string]*Term{},
		rangeSeen: map[int]bool{}, addrSeen: map[int]bool{}, kindIDs: map[string]int{}, typeIDs: map[string]int{}, strIDs: map[string]int{},
		oblNames: map[string]int{}, ghostTouched: map[string][]*Term{}, usedStubs: map[string]bool{}, inlined: map[string]bool{}, havocked: map[string]bool{}, sitesHit: map[string]bool{}}
	return ex
}

func (ex *Exec) note(format string, args ...interface{}) {
	ex.notes[fmt.Sprintf(format, args...)] = true
}

func (ex *Exec) assume(pc, fact *Term) {
	f := ex.ts.Implies(pc, fact)
	if f.IsTrue() {
		return
	}
	if ex.ts.HasFreeBound(f) {
		// a side fact about a term under a quantifier of a specification
		// (range of a loaded value, ...): it cannot be stated outside the
		// quantifier; dropping an assumption is always sound
		return
	}
	ex.assumes = append(ex.assumes, f)
}

func (ex *Exec) oblige(kind, desc string, pos token.Pos, props []string, st *State, cond *Term) *Obligation {
	if cond.IsTrue() || st.PC.IsFalse() {
		// trivially discharged; still counted
	}
	base := FuncName(ex.fn) + "#" + kind
	if desc != "" {
		base += ":" + desc
	}
	ex.oblNames[base]++
	id := base
	if n := ex.oblNames[base]; n > 1 {
		id = fmt.Sprintf("%s~%d", base, n)
	}
	if len(props) == 0 && ex.contract != nil {
		props = ex.contract.Props
	}
	o := &Obligation{ID: id, Kind: kind, Func: FuncName(ex.fn), Desc: desc, Pos: ex.prog.Position(pos), Props: props,
		NAssume: len(ex.assumes), PC: st.PC, Cond: cond}
	ex.obls = append(ex.obls, o)
	// once checked, the fact may be used downstream
	ex.assume(st.PC, cond)
	return o
}

// ---------------------------------------------------------------------------
// heap access

func (ex *Exec) initHeap(key string, sort *Sort) *Term {
	if t, ok := ex.init[key]; ok {
		if t.Sort != sort {
			panic(fmt.Sprintf("heap key %s used at sorts %s and %s", key, t.Sort, sort))
		}
		return t
	}
	var t *Term
	if strings.HasPrefix(key, "G:") {
		if g, ok := ex.prog.Contracts.GhostMaps[key[2:]]; ok && g.Zero {
			t = ex.ts.ConstArray(sort, ex.tm.zeroSort(sort.Args[1]))
		}
	}
	if t == nil {
		t = ex.ts.Const("H0!"+key, sort)
	}
	ex.init[key] = t
	return t
}

func (ex *Exec) heapGet(st *State, key string, sort *Sort) *Term {
	if t, ok := st.Heap[key]; ok {
		if t.Sort != sort {
			panic(fmt.Sprintf("heap key %s used at sorts %s and %s", key, t.Sort, sort))
		}
		return t
	}
	return ex.initHeap(key, sort)
}

func (ex *Exec) heapSet(st *State, key string, t *Term) { st.Heap[key] = t }

func (ex *Exec) havocKey(st *State, key string) {
	if strings.HasSuffix(key, "*") {
		for _, full := range ex.prog.Pre.KeysWithPrefix(strings.TrimSuffix(key, "*")) {
			ex.havocKey(st, full)
		}
		return
	}
	if strings.HasPrefix(key, "E:") {
		// a typed element key havocked on its own: the whole sort (conservative)
		if i := strings.Index(key, "@"); i >= 0 {
			key = key[:i]
		}
	}
	sort := ex.tm.KeySort(key, ex.prog.Contracts)
	if cur, ok := st.Heap[key]; ok {
		sort = cur.Sort
	} else if it, ok := ex.init[key]; ok {
		sort = it.Sort
	}
	if sort == nil {
		ex.note("cannot havoc heap key %s: unknown sort", key)
		return
	}
	ex.tm.declareSorts(sort)
	st.Heap[key] = ex.ts.Fresh("H!"+key, sort)
}

// havocSet havocs a write-set. An element key may carry the Go element type
// of the arrays that are written ("E:<sort>@<type>", see Prepass.elemKey).
// Arrays of another element type are different objects (arrIs) and a write
// through a []T can only reach an array of T, so those keep their contents:
// the new heap array equals the old one at every array whose element type is
// not among the written ones.
func (ex *Exec) havocSet(st *State, keys []string) {
	ts := ex.ts
	typed := map[string][]string{}
	whole := map[string]bool{}
	var plain []string
	seen := map[string]bool{}
	var expand func(k string)
	expand = func(k string) {
		if strings.HasSuffix(k, "*") {
			for _, full := range ex.prog.Pre.KeysWithPrefix(strings.TrimSuffix(k, "*")) {
				expand(full)
			}
			return
		}
		if seen[k] {
			return
		}
		seen[k] = true
		if strings.HasPrefix(k, "E:") {
			if i := strings.Index(k, "@"); i >= 0 {
				typed[k[:i]] = append(typed[k[:i]], k[i+1:])
				return
			}
			whole[k] = true
		}
		plain = append(plain, k)
	}
	for _, k := range keys {
		expand(k)
	}
	sort.Strings(plain)
	for _, k := range plain {
		ex.havocKey(st, k)
	}
	var bases []string
	for b := range typed {
		if !whole[b] {
			bases = append(bases, b)
		}
	}
	sort.Strings(bases)
	for _, b := range bases {
		srt := ex.tm.KeySort(b, ex.prog.Contracts)
		if srt == nil {
			ex.havocKey(st, b)
			continue
		}
		before := ex.heapGet(st, b, srt)
		ex.havocKey(st, b)
		after := st.Heap[b]
		tys := typed[b]
		sort.Strings(tys)
		a := ts.BoundVar("a", SInt)
		var other []*Term
		for _, ty := range tys {
			other = append(other, ts.Neq(ex.uf("arrtype", SInt, a), ex.typeIDOfKey(ty)))
		}
		ex.assume(ts.True(), ts.Forall([]*Term{a}, ts.Implies(ts.And(other...), ts.Eq(ts.Select(after, a), ts.Select(before, a)))))
	}
}

// ---------------------------------------------------------------------------
// integer helpers

var two64 = new(big.Int).Lsh(big.NewInt(1), 64)

// rangePC: the path condition under which the range fact of a loaded value is
// recorded. Integers are in range on every path by construction (every
// stored integer was wrapped to its type), so the fact can be stated once for
// all paths; the well-formedness of a slice value (bounds of the slicing
// expression that produced it) only holds on the path that computed it.
func (ex *Exec) rangePC(st *State, typ types.Type) *Term {
	if b, ok := types.Unalias(typ).Underlying().(*types.Basic); ok && b.Info()&types.IsInteger != 0 {
		return ex.ts.True()
	}
	return st.PC
}

func (ex *Exec) assumeRange(pc *Term, t *Term, typ types.Type) {
	if t.IsLit() {
		return
	}
	typ = types.Unalias(typ)
	// a fact recorded under one path condition says nothing on other paths:
	// remember (term, path condition) pairs
	rk := t.ID*1000003 + pc.ID
	switch u := typ.Underlying().(type) {
	case *types.Basic:
		lo, hi := intRange(typ)
		if lo == nil {
			return
		}
		if ex.rangeSeen[rk] {
			return
		}
		ex.rangeSeen[rk] = true
		ex.assume(pc, ex.ts.And(ex.ts.Le(ex.ts.IntBig(lo), t), ex.ts.Le(t, ex.ts.IntBig(hi))))
	case *types.Slice:
		if ex.rangeSeen[rk] {
			return
		}
		ex.rangeSeen[rk] = true
		ts := ex.ts
		l := ts.SelectField(ex.tm.slice, 2, t)
		c := ts.SelectField(ex.tm.slice, 3, t)
		o := ts.SelectField(ex.tm.slice, 1, t)
		a := ts.SelectField(ex.tm.slice, 0, t)
		ex.assume(pc, ts.And(ts.Le(ts.Int(0), l), ts.Le(l, c), ts.Le(ts.Int(0), o), ts.Le(c, ts.Int(1<<40)),
			ts.Implies(ts.Eq(a, ts.Int(0)), ts.Eq(c, ts.Int(0)))))
		_ = u
	case *types.Struct:
		if _, ok := ex.tm.isTargetStruct(typ); !ok {
			return
		}
		if ex.rangeSeen[rk] {
			return
		}
		ex.rangeSeen[rk] = true
		dt := ex.tm.structDT(typ)
		for i := 0; i < u.NumFields(); i++ {
			ft := u.Field(i).Type()
			switch ft.Underlying().(type) {
			case *types.Basic, *types.Slice:
				ex.assumeRange(pc, ex.ts.SelectField(dt, i, t), ft)
			}
		}
	}
}

// wrap brings an exact integer result back into the range of type typ using
// Go's wrap-around semantics. maxWraps is 1 when the value is known to be
// within one modulus of the range (add/sub of in-range operands).
func (ex *Exec) wrap(t *Term, typ types.Type, single bool) *Term {
	lo, hi := intRange(typ)
	if lo == nil {
		return t
	}
	ts := ex.ts
	if t.IsLit() {
		m := new(big.Int).Add(new(big.Int).Sub(hi, lo), big.NewInt(1))
		v := new(big.Int).Sub(t.Int, lo)
		v.Mod(v, m)
		v.Add(v, lo)
		return ts.IntBig(v)
	}
	m := ts.IntBig(new(big.Int).Add(new(big.Int).Sub(hi, lo), big.NewInt(1)))
	if single {
		return ts.Ite(ts.Lt(ts.IntBig(hi), t), ts.Sub(t, m), ts.Ite(ts.Lt(t, ts.IntBig(lo)), ts.Add(t, m), t))
	}
	if lo.Sign() == 0 {
		return ts.ModEuclid(t, m)
	}
	return ts.Add(ts.ModEuclid(ts.Sub(t, ts.IntBig(lo)), m), ts.IntBig(lo))
}

// ---------------------------------------------------------------------------
// uninterpreted helpers

func (ex *Exec) uf(name string, ret *Sort, args ...*Term) *Term {
	var sorts []*Sort
	for _, a := range args {
		sorts = append(sorts, a.Sort)
	}
	return ex.ts.App(ex.ts.Fun(name, ret, sorts...), args...)
}

func (ex *Exec) typeID(t types.Type) *Term {
	ex.noteConcreteType(t)
	return ex.typeIDOfKey(typeKey(t))
}

func (ex *Exec) typeIDOfKey(k string) *Term {
	if _, ok := ex.typeIDs[k]; !ok {
		ex.typeIDs[k] = len(ex.typeIDs) + 1
	}
	return ex.ts.Int(int64(ex.typeIDs[k]))
}

// mapIs records that the (non-nil) map reference m holds a map of Go type mt:
// maps of different types are different objects, so an update of one cannot
// change the (shared) cardinality entry of the other.
func (ex *Exec) mapIs(m *Term, mt *types.Map) {
	if m.IsLit() {
		return
	}
	id := ex.typeID(mt)
	k := -(m.ID*4096 + int(id.Int.Int64())%4096 + 1)
	if ex.rangeSeen[k] {
		return
	}
	ex.rangeSeen[k] = true
	ex.assume(ex.ts.True(), ex.ts.Implies(ex.ts.Neq(m, ex.ts.Int(0)), ex.ts.Eq(ex.uf("maptype", SInt, m), id)))
}

// arrIs records that the (non-nil) backing array arr holds elements of Go type
// el: arrays of different element types are different objects, although their
// contents live in one heap array per element sort.
func (ex *Exec) arrIs(arr *Term, el types.Type) {
	if arr.IsLit() || strings.Contains(typeKey(el), "$") {
		// inside a generic function the element type is a type parameter:
		// nothing is known about the arrays it is instantiated with
		return
	}
	id := ex.typeID(el)
	k := -(arr.ID*4096 + int(id.Int.Int64())%4096 + 1) - 1<<40
	if ex.rangeSeen[k] {
		return
	}
	ex.rangeSeen[k] = true
	ex.assume(ex.ts.True(), ex.ts.Implies(ex.ts.Neq(arr, ex.ts.Int(0)), ex.ts.Eq(ex.uf("arrtype", SInt, arr), id)))
}

func (ex *Exec) strLit(s string) *Term {
	if s == "" {
		return ex.ts.Int(0)
	}
	if _, ok := ex.strIDs[s]; !ok {
		ex.strIDs[s] = len(ex.strIDs) + 1
	}
	// string literals are positive ids in a reserved band; other strings are
	// unconstrained, so equality with a literal is possible but not forced
	t := ex.ts.Int(int64(1000000 + ex.strIDs[s]))
	ex.assume(ex.ts.True(), ex.ts.Eq(ex.uf("strlen", SInt, t), ex.ts.Int(int64(len(s)))))
	return t
}

// subObject returns the address of a struct-typed field embedded by value.
func (ex *Exec) subObject(key string, base *Term) *Term {
	t := ex.uf("fa!"+key, SInt, base)
	if !ex.addrSeen[t.ID] {
		ex.addrSeen[t.ID] = true
		if _, ok := ex.kindIDs[key]; !ok {
			ex.kindIDs[key] = len(ex.kindIDs) + 1
		}
		ts := ex.ts
		ex.assume(ts.True(), ts.And(
			ts.Eq(ex.uf("inv!"+key, SInt, t), base),
			ts.Eq(ex.uf("addrkind", SInt, t), ts.Int(int64(ex.kindIDs[key]))),
			ts.Eq(ex.uf("alloctime", SInt, t), ex.uf("alloctime", SInt, base)),
			ts.Neq(t, ts.Int(0))))
	}
	return t
}

// freshObject allocates a new object reference distinct from everything seen so far.
func (ex *Exec) freshObject(st *State, name string) *Term {
	ts := ex.ts
	r := ts.Fresh("new!"+name, SInt)
	st.Time++
	ex.ownAllocs = append(ex.ownAllocs, r)
	ex.assume(ts.True(), ts.And(
		ts.Neq(r, ts.Int(0)),
		ts.Eq(ex.uf("alloctime", SInt, r), ts.Int(int64(st.Time))),
		ts.Eq(ex.uf("addrkind", SInt, r), ts.Int(0))))
	for name, g := range ex.prog.Contracts.GhostMaps {
		if !g.FreshZero {
			continue
		}
		key := "G:" + name
		sort := SArray(ghostSort(g.Key), ghostSort(g.Val))
		arr := ex.heapGet(st, key, sort)
		ex.heapSet(st, key, ts.Store(arr, r, ex.tm.zeroSort(sort.Args[1])))
	}
	return r
}

// knownSliceArray: the backing array of a slice value that is read from
// memory existed when it was read (so it differs from anything allocated later).
func (ex *Exec) knownSliceArray(st *State, t *Term, typ types.Type) {
	if typ == nil || t.Sort.Name != "Slice" {
		return
	}
	if _, isSlice := types.Unalias(typ).Underlying().(*types.Slice); isSlice {
		ex.knownRef(st, ex.ts.SelectField(ex.tm.slice, 0, t))
	}
}

// knownRef records that reference t existed at the current time.
func (ex *Exec) knownRef(st *State, t *Term) {
	if t.IsLit() || strings.HasPrefix(t.Op, "$c:new!") {
		return
	}
	k := t.ID*64 + st.Time%64
	if ex.addrSeen[-k] {
		return
	}
	ex.addrSeen[-k] = true
	ex.assume(st.PC, ex.ts.Le(ex.uf("alloctime", SInt, t), ex.ts.Int(int64(st.Time))))
}

// ---------------------------------------------------------------------------
// locations: load / store

func (ex *Exec) rootValue(st *State, l Loc) Value {
	if l.Cell != nil {
		v, ok := st.Cells[l.Cell]
		if !ok {
			return Unknown{"uninitialised cell " + l.Cell.Name}
		}
		return v
	}
	arr := ex.heapGet(st, l.Key, SArray(SInt, l.Sort))
	return TV{ex.ts.Select(arr, l.Idx)}
}

func (ex *Exec) setRoot(st *State, l Loc, v Value) {
	if l.Cell != nil {
		st.Cells[l.Cell] = v
		return
	}
	tv, ok := v.(TV)
	if !ok {
		ex.note("store of non-term value (%T) to heap location %s", v, l.Key)
		tv = TV{ex.ts.Fresh("opaque", l.Sort)}
	}
	if tv.T.Sort != l.Sort {
		ex.note("store sort mismatch at %s: %s vs %s", l.Key, tv.T.Sort, l.Sort)
		tv = TV{ex.ts.Fresh("opaque", l.Sort)}
	}
	arr := ex.heapGet(st, l.Key, SArray(SInt, l.Sort))
	ex.heapSet(st, l.Key, ex.ts.Store(arr, l.Idx, tv.T))
}

func (ex *Exec) loadLoc(st *State, l Loc) Value {
	v := ex.rootValue(st, l)
	if len(l.Path) == 0 {
		return v
	}
	tv, ok := v.(TV)
	if !ok {
		return Unknown{fmt.Sprintf("path into %T", v)}
	}
	t := tv.T
	for _, s := range l.Path {
		if s.DT != nil {
			t = ex.ts.SelectField(s.DT, s.Field, t)
		} else {
			t = ex.ts.Select(t, s.Index)
		}
	}
	return TV{t}
}

func (ex *Exec) storeLoc(st *State, l Loc, v Value) {
	if len(l.Path) == 0 {
		ex.setRoot(st, l, v)
		return
	}
	rootV := ex.rootValue(st, l)
	rt, ok := rootV.(TV)
	if !ok {
		ex.note("store through path into %T", rootV)
		return
	}
	nv, ok := v.(TV)
	if !ok {
		ex.note("store of %T through path", v)
		return
	}
	ex.setRoot(st, Loc{Cell: l.Cell, Key: l.Key, Idx: l.Idx, Sort: l.Sort}, TV{ex.updatePath(rt.T, l.Path, nv.T)})
}

func (ex *Exec) updatePath(root *Term, path []PathStep, v *Term) *Term {
	if len(path) == 0 {
		return v
	}
	s := path[0]
	if s.DT != nil {
		var args []*Term
		for i := range s.DT.Fields {
			f := ex.ts.SelectField(s.DT, i, root)
			if i == s.Field {
				f = ex.updatePath(f, path[1:], v)
			}
			args = append(args, f)
		}
		return ex.ts.Construct(s.DT, args...)
	}
	inner := ex.ts.Select(root, s.Index)
	return ex.ts.Store(root, s.Index, ex.updatePath(inner, path[1:], v))
}

// fieldAddr computes &x.f for pointer value x to struct type styp.
func (ex *Exec) fieldAddr(st *State, x Value, styp types.Type, field int) Value {
	su := styp.Underlying().(*types.Struct)
	ft := su.Field(field).Type()
	switch p := x.(type) {
	case Loc:
		// pointer into a Go-side compound value
		if _, ok := ex.tm.isTargetStruct(styp); !ok {
			// field of an external struct embedded by value in a heap object:
			// an opaque cell at the derived address of the embedded struct
			if base, ok := ex.reify(p); ok && p.Cell == nil {
				k := typeKey(styp) + "." + su.Field(field).Name()
				regMu.Lock()
				fieldTypeRegistry["F:"+k] = ft
				regMu.Unlock()
				if _, isStruct := ft.Underlying().(*types.Struct); isStruct {
					return Loc{Key: "F:" + k, Idx: base, Sort: SInt}
				}
				return Loc{Key: "F:" + k, Idx: base, Sort: ex.tm.SortOf(ft)}
			}
			return Unknown{"field of external struct value"}
		}
		dt := ex.tm.structDT(styp)
		np := append(append([]PathStep(nil), p.Path...), PathStep{DT: dt, Field: field})
		return Loc{Cell: p.Cell, Key: p.Key, Idx: p.Idx, Sort: p.Sort, Path: np}
	case TV:
		if _, ok := ex.tm.isTargetStruct(styp); !ok {
			// field of an external struct through a pointer: opaque
			k := typeKey(styp) + "." + su.Field(field).Name()
			regMu.Lock()
			fieldTypeRegistry["F:"+k] = ft
			regMu.Unlock()
			return Loc{Key: "F:" + k, Idx: p.T, Sort: ex.tm.SortOf(ft)}
		}
		key := ex.tm.FieldKey(styp, field)
		if _, isT := ex.tm.isTargetStruct(ft); isT {
			return TV{ex.subObject(key, p.T)}
		}
		if ex.prog.Pre.AddrTaken[key] {
			return Loc{Key: ex.tm.MemKey(ft), Idx: ex.subObject(key, p.T), Sort: ex.tm.SortOf(ft)}
		}
		return Loc{Key: key, Idx: p.T, Sort: ex.tm.SortOf(ft)}
	case Unknown:
		return p
	}
	return Unknown{fmt.Sprintf("fieldAddr on %T", x)}
}

// reify turns a pointer value into a term (identity of the location).
func (ex *Exec) reify(v Value) (*Term, bool) {
	switch p := v.(type) {
	case TV:
		return p.T, true
	case Loc:
		if p.Cell != nil && len(p.Path) == 0 {
			// identity of a local variable (e.g. a local mutex captured by a
			// closure): a distinct negative literal per cell
			return ex.ts.Int(int64(-1000 - p.Cell.ID)), true
		}
		if p.Cell != nil || len(p.Path) > 0 {
			return nil, false
		}
		if strings.HasPrefix(p.Key, "M:") {
			return p.Idx, true
		}
		if strings.HasPrefix(p.Key, "F:") || strings.HasPrefix(p.Key, "X:") {
			return ex.subObject(p.Key[2:], p.Idx), true
		}
	}
	return nil, false
}

// load reads through pointer value addr whose pointee type is typ.
func (ex *Exec) load(st *State, addr Value, typ types.Type) Value {
	switch p := addr.(type) {
	case Loc:
		v := ex.loadLoc(st, p)
		if tv, ok := v.(TV); ok {
			ex.assumeRange(ex.rangePC(st, typ), tv.T, typ)
			if isPointerLike(typ) {
				ex.knownRef(st, tv.T)
			}
			ex.knownSliceArray(st, tv.T, typ)
		}
		return v
	case TV:
		if stt, ok := ex.tm.isTargetStruct(typ); ok {
			return TV{ex.loadStruct(st, p.T, typ, stt)}
		}
		s := ex.tm.SortOf(typ)
		arr := ex.heapGet(st, ex.tm.MemKey(typ), SArray(SInt, s))
		t := ex.ts.Select(arr, p.T)
		ex.assumeRange(ex.rangePC(st, typ), t, typ)
		if isPointerLike(typ) {
			ex.knownRef(st, t)
		}
		ex.knownSliceArray(st, t, typ)
		return TV{t}
	case Unknown:
		ex.note("load through unknown pointer: %s", p.Why)
		if typ != nil {
			if _, isTuple := typ.(*types.Tuple); !isTuple && !isDeferStack(typ) {
				return ex.fresh(st, "unk", typ)
			}
		}
		return p
	}
	return Unknown{fmt.Sprintf("load through %T", addr)}
}

func (ex *Exec) loadStruct(st *State, p *Term, typ types.Type, su *types.Struct) *Term {
	dt := ex.tm.structDT(typ)
	var args []*Term
	for i := 0; i < su.NumFields(); i++ {
		fa := ex.fieldAddr(st, TV{p}, typ, i)
		v := ex.load(st, fa, su.Field(i).Type())
		tv, ok := v.(TV)
		if !ok {
			tv = TV{ex.ts.Fresh("opaque", ex.tm.SortOf(su.Field(i).Type()))}
		}
		args = append(args, tv.T)
	}
	if su.NumFields() == 0 {
		args = append(args, ex.ts.Int(0))
	}
	return ex.ts.Construct(dt, args...)
}

func (ex *Exec) store(st *State, addr Value, typ types.Type, v Value) {
	switch p := addr.(type) {
	case Loc:
		ex.storeLoc(st, p, v)
	case TV:
		if su, ok := ex.tm.isTargetStruct(typ); ok {
			tv, ok := v.(TV)
			if !ok {
				ex.note("struct store of %T", v)
				return
			}
			dt := ex.tm.structDT(typ)
			for i := 0; i < su.NumFields(); i++ {
				fa := ex.fieldAddr(st, TV{p.T}, typ, i)
				ex.store(st, fa, su.Field(i).Type(), TV{ex.ts.SelectField(dt, i, tv.T)})
			}
			return
		}
		s := ex.tm.SortOf(typ)
		tv, ok := v.(TV)
		if !ok || tv.T.Sort != s {
			ex.note("store of %T through opaque pointer", v)
			tv = TV{ex.ts.Fresh("opaque", s)}
		}
		arr := ex.heapGet(st, ex.tm.MemKey(typ), SArray(SInt, s))
		ex.heapSet(st, ex.tm.MemKey(typ), ex.ts.Store(arr, p.T, tv.T))
	case Unknown:
		ex.note("store through unknown pointer: %s", p.Why)
	default:
		ex.note("store through %T", addr)
	}
}

// ---------------------------------------------------------------------------
// function execution

type loopInfo struct {
	head  *ssa.BasicBlock
	body  map[*ssa.BasicBlock]bool
	index int
}

func (ex *Exec) newCell(name string, typ types.Type) *Cell {
	ex.cellSeq++
	return &Cell{Name: name, ID: ex.cellSeq, Type: typ}
}

// analyse loops: back edges b->h where h dominates b.
func findLoops(fn *ssa.Function) (map[*ssa.BasicBlock]*loopInfo, map[[2]int]bool, bool) {
	loops := map[*ssa.BasicBlock]*loopInfo{}
	back := map[[2]int]bool{}
	for _, b := range fn.Blocks {
		for _, s := range b.Succs {
			if s.Dominates(b) {
				back[[2]int{b.Index, s.Index}] = true
				li := loops[s]
				if li == nil {
					li = &loopInfo{head: s, body: map[*ssa.BasicBlock]bool{s: true}}
					loops[s] = li
				}
				// natural loop body
				stack := []*ssa.BasicBlock{b}
				for len(stack) > 0 {
					x := stack[len(stack)-1]
					stack = stack[:len(stack)-1]
					if li.body[x] {
						continue
					}
					li.body[x] = true
					stack = append(stack, x.Preds...)
				}
			}
		}
	}
	// number loops by source position of the head's first instruction position
	var heads []*ssa.BasicBlock
	for h := range loops {
		heads = append(heads, h)
	}
	sort.Slice(heads, func(i, j int) bool { return loopPos(heads[i]) < loopPos(heads[j]) })
	for i, h := range heads {
		loops[h].index = i
	}
	// reducibility check: every retreating edge (in DFS) must be a back edge
	reducible := true
	state := map[*ssa.BasicBlock]int{}
	var dfs func(b *ssa.BasicBlock)
	dfs = func(b *ssa.BasicBlock) {
		state[b] = 1
		for _, s := range b.Succs {
			if state[s] == 1 && !back[[2]int{b.Index, s.Index}] {
				reducible = false
			}
			if state[s] == 0 {
				dfs(s)
			}
		}
		state[b] = 2
	}
	if len(fn.Blocks) > 0 {
		dfs(fn.Blocks[0])
	}
	return loops, back, reducible
}

func loopPos(h *ssa.BasicBlock) token.Pos {
	// the position of the "for" statement: use the smallest valid position of
	// the instructions in the head block and its comment
	best := token.Pos(1 << 40)
	var scan func(b *ssa.BasicBlock)
	scan = func(b *ssa.BasicBlock) {
		for _, ins := range b.Instrs {
			if p := ins.Pos(); p.IsValid() && p < best {
				best = p
			}
		}
	}
	scan(h)
	if best == token.Pos(1<<40) {
		for _, s := range h.Succs {
			scan(s)
		}
	}
	return best
}

func rpo(fn *ssa.Function, back map[[2]int]bool) []*ssa.BasicBlock {
	seen := map[*ssa.BasicBlock]bool{}
	var post []*ssa.BasicBlock
	var dfs func(b *ssa.BasicBlock)
	dfs = func(b *ssa.BasicBlock) {
		seen[b] = true
		for _, s := range b.Succs {
			if back[[2]int{b.Index, s.Index}] || seen[s] {
				continue
			}
			dfs(s)
		}
		post = append(post, b)
	}
	dfs(fn.Blocks[0])
	for i, j := 0, len(post)-1; i < j; i, j = i+1, j-1 {
		post[i], post[j] = post[j], post[i]
	}
	return post
}

// runFunc executes fn from state st with the given arguments. It returns the
// merged state at normal returns (nil if none) and the merged results.
func (ex *Exec) runFunc(fn *ssa.Function, args []Value, bind []Value, st *State, depth int, top bool) (*State, []Value) {
	fr := &Frame{fn: fn, vals: map[ssa.Value]Value{}, cells: map[*ssa.Alloc]*Cell{}, bind: bind, top: top, depth: depth,
		named: map[string]*Cell{}, edge: map[[2]int]*State{}, loopIdx: map[*ssa.BasicBlock]int{}, siteOcc: map[string]int{}}
	for i, p := range fn.Params {
		if i < len(args) {
			fr.vals[p] = args[i]
		} else {
			fr.vals[p] = Unknown{"missing argument"}
		}
	}
	for i, fv := range fn.FreeVars {
		if i < len(bind) {
			fr.vals[fv] = bind[i]
		} else {
			fr.vals[fv] = Unknown{"missing binding"}
		}
	}
	loops, back, reducible := findLoops(fn)
	if !reducible {
		ex.note("%s: irreducible control flow", FuncName(fn))
		return nil, nil
	}
	order := rpo(fn, back)
	deferBase := len(st.Defers)
	_ = deferBase
	saved := ex.curFrame
	ex.curFrame = fr
	if top {
		ex.topFrame = fr
		if ex.contract != nil && ex.full {
			for n, ls := range ex.contract.Loops {
				if n < 0 || n >= len(loops) {
					ex.contractProblem("%s: loop %d: %s has %d loop(s), numbered from 0", ex.contract.Pos, n, FuncName(fn), len(loops))
				}
				_ = ls
			}
		}
	}
	defer func() { ex.curFrame = saved }()

	for _, b := range order {
		var in []*State
		if b.Index == 0 {
			in = append(in, st)
		}
		for _, p := range b.Preds {
			if back[[2]int{p.Index, b.Index}] {
				continue
			}
			if es, ok := fr.edge[[2]int{p.Index, b.Index}]; ok && es != nil {
				dup := false
				for _, x := range in {
					if x == es {
						dup = true
					}
				}
				if !dup {
					in = append(in, es)
				}
			}
		}
		if fn.Recover != nil && b == fn.Recover {
			continue
		}
		if len(in) == 0 {
			continue
		}
		// phis need the edge conditions before merging
		var phiVals map[*ssa.Phi]Value
		if len(b.Instrs) > 0 {
			if _, ok := b.Instrs[0].(*ssa.Phi); ok {
				phiVals = ex.evalPhis(fr, b, back)
			}
		}
		for _, p := range b.Preds {
			delete(fr.edge, [2]int{p.Index, b.Index})
		}
		cur := ex.mergeStates(in)
		if cur.PC.IsFalse() {
			continue
		}
		for phi, v := range phiVals {
			fr.vals[phi] = v
		}
		if li, ok := loops[b]; ok {
			cur = cur.Clone()
			ex.enterLoop(fr, li, cur)
		}
		ex.execBlock(fr, b, cur, loops, back)
	}
	if len(fr.retSts) == 0 {
		return nil, nil
	}
	// merge return states and values
	out := fr.retSts[0]
	vals := fr.retVals[0]
	for i := 1; i < len(fr.retSts); i++ {
		c := out.PC
		nvals := make([]Value, len(vals))
		for j := range vals {
			nvals[j] = ex.mergeValues(c, vals[j], fr.retVals[i][j])
		}
		out = ex.merge2(out, fr.retSts[i])
		vals = nvals
	}
	return out, vals
}

// edge states are recorded with the phi inputs still evaluable
type phiEdge struct {
	pc *Term
}

func (ex *Exec) evalPhis(fr *Frame, b *ssa.BasicBlock, back map[[2]int]bool) map[*ssa.Phi]Value {
	out := map[*ssa.Phi]Value{}
	for _, ins := range b.Instrs {
		phi, ok := ins.(*ssa.Phi)
		if !ok {
			break
		}
		var acc Value
		for i, p := range b.Preds {
			if back[[2]int{p.Index, b.Index}] {
				continue
			}
			es, ok := fr.edge[[2]int{p.Index, b.Index}]
			if !ok || es == nil {
				continue
			}
			v := ex.operand(fr, es, phi.Edges[i])
			if acc == nil {
				acc = v
			} else {
				acc = ex.mergeValues(es.PC, v, acc)
			}
		}
		out[phi] = acc
	}
	return out
}

func (ex *Exec) execBlock(fr *Frame, b *ssa.BasicBlock, st *State, loops map[*ssa.BasicBlock]*loopInfo, back map[[2]int]bool) {
	for _, ins := range b.Instrs {
		if st.PC.IsFalse() {
			return
		}
		switch x := ins.(type) {
		case *ssa.If:
			c := ex.operand(fr, st, x.Cond)
			ct, ok := c.(TV)
			if !ok {
				ct = TV{ex.ts.Fresh("cond", SBool)}
				ex.note("%s: unknown branch condition", FuncName(fr.fn))
			}
			tst := st.Clone()
			tst.PC = ex.ts.And(st.PC, ct.T)
			fst := st
			fst.PC = ex.ts.And(st.PC, ex.ts.Not(ct.T))
			ex.flow(fr, b, b.Succs[0], tst, loops, back)
			ex.flow(fr, b, b.Succs[1], fst, loops, back)
			return
		case *ssa.Jump:
			ex.flow(fr, b, b.Succs[0], st, loops, back)
			return
		case *ssa.Return:
			var vals []Value
			for _, r := range x.Results {
				vals = append(vals, ex.operand(fr, st, r))
			}
			ex.checkExhaustive(fr, b, nil, st, loops)
			fr.retSts = append(fr.retSts, st)
			fr.retVals = append(fr.retVals, vals)
			return
		case *ssa.Panic:
			ex.onPanic(fr, st, x)
			return
		default:
			ex.execInstr(fr, st, ins)
		}
	}
}

func (ex *Exec) flow(fr *Frame, from, to *ssa.BasicBlock, st *State, loops map[*ssa.BasicBlock]*loopInfo, back map[[2]int]bool) {
	if st.PC.IsFalse() {
		return
	}
	k := [2]int{from.Index, to.Index}
	if back[k] {
		ex.backEdge(fr, loops[to], st)
		return
	}
	ex.checkExhaustive(fr, from, to, st, loops)
	if prev, ok := fr.edge[k]; ok && prev != nil {
		// both branches of an If go to the same block
		fr.edge[k] = ex.merge2(prev, st)
		return
	}
	fr.edge[k] = st
}

// ---------------------------------------------------------------------------
// operands and constants

func (ex *Exec) operand(fr *Frame, st *State, v ssa.Value) Value {
	switch x := v.(type) {
	case *ssa.Const:
		return ex.constant(x)
	case *ssa.Function:
		return FnVal{x}
	case *ssa.Global:
		// address of a package-level variable
		key := "global!" + x.Pkg.Pkg.Path() + "." + x.Name()
		t := ex.ts.Const(smtIdent(key), SInt)
		ex.assume(ex.ts.True(), ex.ts.Neq(t, ex.ts.Int(0)))
		return TV{t}
	case *ssa.Builtin:
		return Unknown{"builtin value"}
	}
	if val, ok := fr.vals[v]; ok {
		return val
	}
	return Unknown{"undefined SSA value " + v.Name()}
}

func (ex *Exec) constant(c *ssa.Const) Value {
	t := c.Type()
	if c.Value == nil {
		// zero value / nil
		if _, ok := types.Unalias(t).(*types.TypeParam); ok {
			return TV{ex.ts.Int(0)}
		}
		return TV{ex.tm.ZeroOf(t)}
	}
	switch c.Value.Kind() {
	case constant.Bool:
		return TV{ex.ts.Bool(constant.BoolVal(c.Value))}
	case constant.Int:
		if ex.tm.SortOf(t) == SReal {
			bi, _ := new(big.Int).SetString(c.Value.ExactString(), 10)
			if bi == nil {
				return TV{ex.ts.Fresh("real", SReal)}
			}
			return TV{ex.ts.RealFromInt(ex.ts.IntBig(bi))}
		}
		bi, ok := new(big.Int).SetString(c.Value.ExactString(), 10)
		if !ok {
			return Unknown{"big constant"}
		}
		return TV{ex.ts.IntBig(bi)}
	case constant.String:
		return TV{ex.strLit(constant.StringVal(c.Value))}
	case constant.Float:
		// rational literal
		r, ok := new(big.Rat).SetString(c.Value.ExactString())
		if ok {
			num := ex.ts.RealFromInt(ex.ts.IntBig(r.Num()))
			den := ex.ts.RealFromInt(ex.ts.IntBig(r.Denom()))
			if r.IsInt() {
				return TV{num}
			}
			return TV{ex.ts.RealDiv(num, den)}
		}
		return TV{ex.ts.Fresh("real", SReal)}
	}
	return Unknown{"constant kind"}
}

func (ex *Exec) fresh(st *State, name string, typ types.Type) Value {
	if tup, ok := typ.(*types.Tuple); ok {
		out := Tuple{}
		for i := 0; i < tup.Len(); i++ {
			out.Vs = append(out.Vs, ex.fresh(st, fmt.Sprintf("%s.%d", name, i), tup.At(i).Type()))
		}
		return out
	}
	t := ex.ts.Fresh(name, ex.tm.SortOf(typ))
	ex.assumeRange(ex.ts.True(), t, typ)
	if isPointerLike(typ) {
		ex.knownRef(st, t)
	}
	if _, isSlice := types.Unalias(typ).Underlying().(*types.Slice); isSlice && t.Sort.Name == "Slice" {
		// the backing array of a slice that comes from elsewhere exists already
		ex.knownRef(st, ex.ts.SelectField(ex.tm.slice, 0, t))
	}
	if su, isT := ex.tm.isTargetStruct(typ); isT {
		dt := ex.tm.structDT(typ)
		for i := 0; i < su.NumFields(); i++ {
			if _, isSlice := types.Unalias(su.Field(i).Type()).Underlying().(*types.Slice); isSlice {
				f := ex.ts.SelectField(dt, i, t)
				if f.Sort.Name == "Slice" {
					ex.knownRef(st, ex.ts.SelectField(ex.tm.slice, 0, f))
				}
			}
		}
	}
	return TV{t}
}

func (ex *Exec) term(v Value, sort *Sort, why string) *Term {
	if tv, ok := v.(TV); ok && tv.T.Sort == sort {
		return tv.T
	}
	if l, ok := v.(Loc); ok && sort == SInt {
		if t, ok := ex.reify(l); ok {
			return t
		}
	}
	if _, ok := v.(Closure); ok && sort == SInt {
		ex.note("closure used as opaque value (%s)", why)
		t := ex.ts.Fresh("closure", SInt)
		ex.assume(ex.ts.True(), ex.ts.Neq(t, ex.ts.Int(0)))
		return t
	}
	if f, ok := v.(FnVal); ok && sort == SInt {
		t := ex.ts.Const(smtIdent("fn!"+FuncName(f.Fn)), SInt)
		ex.assume(ex.ts.True(), ex.ts.Neq(t, ex.ts.Int(0)))
		return t
	}
	ex.note("opaque value for %s (%T)", why, v)
	return ex.ts.Fresh("opaque", sort)
}
