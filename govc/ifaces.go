package main

// Type assertions to interface types. Whether the dynamic type of a value
// implements an interface is a fixed fact about the two types: it is an
// uninterpreted predicate over (type id of the dynamic type, id of the
// interface), with its value given for every concrete type and interface the
// verification of the function has come across (go/types decides it).

import "go/types"

type ifaceFacts struct {
	types  map[string]types.Type // concrete types with a type id
	ifaces map[string]types.Type // interfaces asserted to
	done   map[string]bool
}

func (ex *Exec) ifaceState() *ifaceFacts {
	if ex.ifx == nil {
		ex.ifx = &ifaceFacts{types: map[string]types.Type{}, ifaces: map[string]types.Type{}, done: map[string]bool{}}
	}
	return ex.ifx
}

func (ex *Exec) implementsTerm(dyn *Term, iface types.Type) *Term {
	return ex.uf("implements", SBool, dyn, ex.typeIDOfKey(typeKey(iface)))
}

func (ex *Exec) noteConcreteType(t types.Type) {
	if t == nil || isInterface(t) {
		return
	}
	if _, isTP := types.Unalias(t).(*types.TypeParam); isTP {
		return
	}
	s := ex.ifaceState()
	k := typeKey(t)
	if _, ok := s.types[k]; ok {
		return
	}
	s.types[k] = t
	for ik, it := range s.ifaces {
		ex.implFact(k, t, ik, it)
	}
}

func (ex *Exec) noteInterface(it types.Type) {
	s := ex.ifaceState()
	ik := typeKey(it)
	if _, ok := s.ifaces[ik]; ok {
		return
	}
	s.ifaces[ik] = it
	for k, t := range s.types {
		ex.implFact(k, t, ik, it)
	}
}

func (ex *Exec) implFact(k string, t types.Type, ik string, it types.Type) {
	s := ex.ifaceState()
	if s.done[k+"|"+ik] {
		return
	}
	s.done[k+"|"+ik] = true
	iface, ok := types.Unalias(it).Underlying().(*types.Interface)
	if !ok {
		return
	}
	ts := ex.ts
	f := ex.uf("implements", SBool, ex.typeIDOfKey(k), ex.typeIDOfKey(ik))
	if types.Implements(t, iface) {
		ex.assume(ts.True(), f)
	} else {
		ex.assume(ts.True(), ts.Not(f))
	}
}
