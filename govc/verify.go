package main

// Verification of one function: entry state, contract obligations at return,
// lock balance, vacuity guards, call-site hooks.

import (
	"fmt"
	"go/token"
	"go/types"
	"sort"
	"strings"

	"golang.org/x/tools/go/ssa"
)

type FuncResult struct {
	Func        string
	Pos         string
	Full        bool
	Obls        []*Obligation
	Notes       []string
	Problems    []string
	Inlined     []string
	Stubs       []string
	Assumptions []string
	ex          *Exec
	Panicked    string
}

func VerifyFunction(p *Program, fn *ssa.Function, full bool) (res *FuncResult) {
	name := FuncName(fn)
	fc := p.Contracts.Funcs[name]
	ex := NewExec(p, fn, fc, full && fc != nil)
	res = &FuncResult{Func: name, Pos: p.Position(fn.Pos()), Full: ex.full, ex: ex}
	defer func() {
		if r := recover(); r != nil {
			res.Panicked = fmt.Sprint(r)
			res.Notes = append(res.Notes, "ENGINE-PANIC: "+fmt.Sprint(r))
		}
		for n := range ex.notes {
			if strings.HasPrefix(n, "CONTRACT-PROBLEM: ") {
				res.Problems = append(res.Problems, strings.TrimPrefix(n, "CONTRACT-PROBLEM: "))
			} else {
				res.Notes = append(res.Notes, n)
			}
		}
		sort.Strings(res.Notes)
		sort.Strings(res.Problems)
		for n := range ex.inlined {
			res.Inlined = append(res.Inlined, n)
		}
		sort.Strings(res.Inlined)
		for n := range ex.usedStubs {
			res.Stubs = append(res.Stubs, n)
		}
		sort.Strings(res.Stubs)
		res.Obls = ex.obls
		res.Assumptions = ex.assumedClauses
	}()
	if fc != nil && fc.Trusted && !fc.IsStub {
		ex.note("%s: contract is trusted (%s); body not verified", name, fc.TrustedReason)
		return res
	}
	ex.run()
	return res
}

func (ex *Exec) run() {
	ts := ex.ts
	fn := ex.fn
	st := &State{PC: ts.True(), Cells: map[*Cell]Value{}, Heap: map[string]*Term{}}
	ex.indexSites()
	// arguments
	var args []Value
	env := map[string]SV{}
	for i, p := range fn.Params {
		v := ex.fresh(st, "arg!"+p.Name(), p.Type())
		args = append(args, v)
		env[p.Name()] = SV{V: v, T: p.Type()}
		env[fmt.Sprintf("arg%d", i)] = SV{V: v, T: p.Type()}
		if i == 0 && fn.Signature.Recv() != nil {
			if _, ok := p.Type().Underlying().(*types.Pointer); ok {
				ex.assume(ts.True(), ts.Neq(v.(TV).T, ts.Int(0)))
			}
		}
	}
	// free variables of closures verified on their own: cells with unknown content
	var bind []Value
	for _, fv := range fn.FreeVars {
		el := derefType(fv.Type())
		c := ex.newCell(fv.Name(), el)
		if _, isT := ex.tm.isTargetStruct(el); isT || el == nil {
			st.Cells[c] = ex.fresh(st, "free!"+fv.Name(), el)
		} else {
			st.Cells[c] = ex.fresh(st, "free!"+fv.Name(), el)
		}
		bind = append(bind, Loc{Cell: c, Sort: ex.tm.SortOf(el)})
		env[fv.Name()] = SV{V: st.Cells[c], T: el}
	}
	aliasRenamed(fn, env)
	ex.entry = st.Clone()
	ex.entryEnv = env
	fc := ex.contract
	if ex.full && fc != nil {
		ctx := &EvalCtx{ex: ex, st: st, old: st, env: env, pkg: fc.Pkg, fnPos: fn.Pos()}
		for _, r := range fc.Requires {
			c, err := ctx.evalBool(r.Expr)
			if err != nil {
				ex.contractProblem("%s: requires: %v", r.Pos, err)
				continue
			}
			ex.assume(ts.True(), c)
		}
		for _, a := range fc.Assumes {
			c, err := ctx.evalBool(a.Expr)
			if err != nil {
				ex.contractProblem("%s: assume: %v", a.Pos, err)
				continue
			}
			ex.assume(ts.True(), c)
			ex.assumedClauses = append(ex.assumedClauses, fmt.Sprintf("%s: assume %s -- %s", FuncName(fn), a.Text, a.Label))
		}
		o := ex.oblige("vacuity", "requires", fn.Pos(), nil, st, ts.True())
		o.MustBeSat = true
	}
	ret, vals := ex.runFunc(fn, args, bind, st, 0, true)
	if ret == nil {
		ex.note("%s: no normal return path", FuncName(fn))
		return
	}
	// results
	renv := map[string]SV{}
	for k, v := range env {
		renv[k] = v
	}
	sig := fn.Signature
	for i, v := range vals {
		typ := sig.Results().At(i).Type()
		renv[fmt.Sprintf("r%d", i)] = SV{V: v, T: typ}
		if nm := sig.Results().At(i).Name(); nm != "" && nm != "_" {
			if _, clash := renv[nm]; !clash {
				renv[nm] = SV{V: v, T: typ}
			}
		}
	}
	// locals of the function are visible in postconditions with the value
	// they have at the (merged) return
	if ex.topFrame != nil {
		for name, sv := range ex.localEnv(ex.topFrame, ret) {
			if _, clash := renv[name]; !clash {
				renv[name] = sv
			}
		}
	}
	ctx := &EvalCtx{ex: ex, st: ret, old: ex.entry, env: renv, oldEnv: env, fnPos: fn.Pos()}
	if fc != nil {
		ctx.pkg = fc.Pkg
	}
	// vacuity guard: the assumptions collected along the paths to the return
	// must be satisfiable (taken before postconditions are added as facts)
	if ex.full && fc != nil {
		o := ex.oblige("vacuity", "return", fn.Pos(), nil, ret, ts.True())
		o.MustBeSat = true
	}
	// lock balance
	ex.checkLockBalance(ctx, ret)
	if ex.full && fc != nil {
		for i, e := range fc.Ensures {
			c, err := ctx.evalBool(e.Expr)
			if err != nil {
				ex.contractProblem("%s: ensures: %v", e.Pos, err)
				continue
			}
			label := e.Label
			if label == "" {
				label = fmt.Sprintf("%d", i+1)
			}
			ex.oblige("ensures@return", label, fn.Pos(), e.Props, ret, c)
		}
		ex.checkFrame(fc, ret, fn)
		// every call-site clause must have found its call (contract-stale guard)
		for _, s := range fc.Sites {
			if !ex.sitesHit[fmt.Sprintf("spec:%s#%d", s.Callee, s.Occ)] {
				ex.contractProblem("%s: no call site matches 'at call %s#%d' (or it is unreachable)", fc.Pos, s.Callee, s.Occ)
			}
		}
	}
}

func (ex *Exec) checkLockBalance(ctx *EvalCtx, ret *State) {
	ts := ex.ts
	fc := ex.contract
	expH := ts.ConstArray(SArray(SInt, SInt), ts.Int(0))
	expR := expH
	if fc != nil {
		for _, le := range fc.LockFx {
			sv, err := ctx.eval(le.Expr)
			if err != nil {
				ex.contractProblem("lockeffect %s: %v", le.Text, err)
				continue
			}
			l, ok := ex.reifyAny(sv.V)
			if !ok {
				ex.contractProblem("lockeffect %s: not a reference", le.Text)
				continue
			}
			ex.touchLock(l, le.Read)
			d := ts.Int(int64(le.Delta))
			if le.Cond != nil {
				c, err := ctx.evalBool(le.Cond)
				if err != nil {
					ex.contractProblem("lockeffect %s: %v", le.Text, err)
					continue
				}
				d = ts.Ite(c, d, ts.Int(0))
			}
			if le.Read {
				expR = ts.Store(expR, l, ts.Add(ts.Select(expR, l), d))
			} else {
				expH = ts.Store(expH, l, ts.Add(ts.Select(expH, l), d))
			}
		}
	}
	if fc != nil && fc.NoBalance {
		return
	}
	held := ex.heapGet(ret, "G:held", SArray(SInt, SInt))
	rheld := ex.heapGet(ret, "G:rheld", SArray(SInt, SInt))
	for _, l := range ex.lockTerms {
		ex.oblige("lockbalance@return", ex.lockName(l), ex.fn.Pos(), ex.lockProps(), ret, ts.Eq(ts.Select(held, l), ts.Select(expH, l)))
	}
	for _, l := range ex.rlockTerms {
		ex.oblige("rlockbalance@return", ex.lockName(l), ex.fn.Pos(), ex.lockProps(), ret, ts.Eq(ts.Select(rheld, l), ts.Select(expR, l)))
	}
	if ex.heldHavocked {
		// a contract redefined the whole held map (LockPile): all locks
		l := ts.BoundVar("l", SInt)
		ex.oblige("lockbalance@return", "all-locks", ex.fn.Pos(), ex.lockProps(), ret,
			ts.Forall([]*Term{l}, ts.And(ts.Eq(ts.Select(held, l), ts.Select(expH, l)), ts.Eq(ts.Select(rheld, l), ts.Select(expR, l)))))
	}
}

// ---------------------------------------------------------------------------
// call-site hooks ("at call NAME#k assert/assume")

type siteInfo struct {
	short string
	occ   int
}

func (ex *Exec) indexSites() {
	ex.siteIndex = map[ssa.Instruction]siteInfo{}
	type rec struct {
		ins   ssa.Instruction
		short string
		pos   token.Pos
		order int
	}
	var recs []rec
	n := 0
	for _, b := range ex.fn.Blocks {
		for _, ins := range b.Instrs {
			ci, ok := ins.(ssa.CallInstruction)
			if !ok {
				continue
			}
			cc := ci.Common()
			name := calleeName(cc)
			if name == "" {
				name = "dyn"
			}
			n++
			recs = append(recs, rec{ins: ins, short: shortCallee(name), pos: ins.Pos(), order: n})
		}
	}
	sort.SliceStable(recs, func(i, j int) bool {
		if recs[i].pos != recs[j].pos {
			return recs[i].pos < recs[j].pos
		}
		return recs[i].order < recs[j].order
	})
	cnt := map[string]int{}
	for _, r := range recs {
		cnt[r.short]++
		ex.siteIndex[r.ins] = siteInfo{short: r.short, occ: cnt[r.short]}
	}
	// qualified patterns ("OpenedFile).Lock"): occurrences are counted among
	// the calls whose full callee name ends with the pattern
	ex.siteQualified = map[ssa.Instruction]map[string]int{}
	if ex.contract != nil {
		for _, s := range ex.contract.Sites {
			if !strings.ContainsAny(s.Callee, ".)") {
				continue
			}
			k := 0
			for _, r := range recs {
				ci := r.ins.(ssa.CallInstruction)
				full := calleeName(ci.Common())
				if strings.HasSuffix(full, s.Callee) {
					k++
					if ex.siteQualified[r.ins] == nil {
						ex.siteQualified[r.ins] = map[string]int{}
					}
					ex.siteQualified[r.ins][s.Callee] = k
				}
			}
		}
	}
}

func (ex *Exec) matchingSites(fr *Frame, instr ssa.Instruction) []*SiteSpec {
	if !ex.full || ex.contract == nil || !fr.top || instr == nil {
		return nil
	}
	si, ok := ex.siteIndex[instr]
	if !ok {
		return nil
	}
	var out []*SiteSpec
	for _, s := range ex.contract.Sites {
		if s.Callee == si.short && (s.Occ == 0 || s.Occ == si.occ) {
			out = append(out, s)
			continue
		}
		if k, ok := ex.siteQualified[instr][s.Callee]; ok && (s.Occ == 0 || s.Occ == k) {
			out = append(out, s)
		}
	}
	return out
}

func (ex *Exec) siteEnv(fr *Frame, st *State, args []Value, cc *ssa.CallCommon) map[string]SV {
	env := ex.localEnv(fr, st)
	var typs []types.Type
	if cc != nil {
		if cc.IsInvoke() {
			typs = append(typs, cc.Value.Type())
		}
		for _, a := range cc.Args {
			typs = append(typs, a.Type())
		}
	}
	for i, a := range args {
		var t types.Type
		if i < len(typs) {
			t = typs[i]
		}
		env[fmt.Sprintf("arg%d", i)] = SV{V: a, T: t}
	}
	return env
}

func (ex *Exec) siteHooks(fr *Frame, st *State, instr ssa.Instruction, name string, args []Value, fn *ssa.Function, cc *ssa.CallCommon, before bool) {
	sites := ex.matchingSites(fr, instr)
	if len(sites) == 0 {
		return
	}
	env := ex.siteEnv(fr, st, args, cc)
	ctx := &EvalCtx{ex: ex, st: st, old: ex.entry, env: env, oldEnv: ex.entryEnv, pkg: ex.contract.Pkg, fnPos: ex.fn.Pos()}
	si := ex.siteIndex[instr]
	for _, s := range sites {
		for i, a := range s.Assert {
			c, err := ctx.evalBool(a.Expr)
			if err != nil {
				ex.contractProblem("%s: at call %s: %v", a.Pos, s.Callee, err)
				continue
			}
			label := a.Label
			if label == "" {
				label = fmt.Sprintf("%d", i+1)
			}
			ex.oblige("assert@call", fmt.Sprintf("%s#%d:%s", si.short, si.occ, label), instr.Pos(), a.Props, st, c)
		}
		for _, a := range s.Assume {
			c, err := ctx.evalBool(a.Expr)
			if err != nil {
				ex.contractProblem("%s: at call %s: %v", a.Pos, s.Callee, err)
				continue
			}
			ex.assume(st.PC, c)
			ex.assumedClauses = append(ex.assumedClauses, fmt.Sprintf("%s: at call %s assume %s -- %s", FuncName(ex.fn), s.Callee, a.Text, a.Label))
		}
	}
	ex.sitesHit[fmt.Sprintf("%s#%d", si.short, si.occ)] = true
	for _, s := range sites {
		ex.sitesHit[fmt.Sprintf("spec:%s#%d", s.Callee, s.Occ)] = true
	}
}

func (ex *Exec) siteHooksAfter(fr *Frame, st *State, instr ssa.Instruction, name string, args []Value, res Value) {
	sites := ex.matchingSites(fr, instr)
	if len(sites) == 0 {
		return
	}
	var cc *ssa.CallCommon
	if ci, ok := instr.(ssa.CallInstruction); ok {
		cc = ci.Common()
	}
	env := ex.siteEnv(fr, st, args, cc)
	if res != nil {
		if t, ok := res.(Tuple); ok {
			for i, v := range t.Vs {
				env[fmt.Sprintf("r%d", i)] = SV{V: v, T: cc.Signature().Results().At(i).Type()}
			}
		} else if cc != nil && cc.Signature().Results().Len() == 1 {
			env["r0"] = SV{V: res, T: cc.Signature().Results().At(0).Type()}
		}
	}
	ctx := &EvalCtx{ex: ex, st: st, old: ex.entry, env: env, oldEnv: ex.entryEnv, pkg: ex.contract.Pkg, fnPos: ex.fn.Pos()}
	for _, s := range sites {
		for _, g := range s.Ghosts {
			if err := ctx.applyGhost(g); err != nil {
				ex.contractProblem("%s: at call %s ghostset %s: %v", ex.contract.Pos, s.Callee, g.Text, err)
			}
		}
		for _, a := range s.AssumePost {
			c, err := ctx.evalBool(a.Expr)
			if err != nil {
				ex.contractProblem("%s: at call %s: %v", a.Pos, s.Callee, err)
				continue
			}
			ex.assume(st.PC, c)
			ex.assumedClauses = append(ex.assumedClauses, fmt.Sprintf("%s: at call %s assume_post %s -- %s", FuncName(ex.fn), s.Callee, a.Text, a.Label))
		}
	}
}

// checkFrame: a function under contract that declares its frame (modifies /
// pure) must not change anything else: callers rely on that frame instead of
// the inferred write-set. The declared targets are havocked with identical
// symbols in a copy of the entry state and in a copy of the return state;
// whatever still differs afterwards was written outside the frame. Fields
// guarded by a monitor whose lock this function acquired are excluded: other
// threads may have changed them (they were havocked at the acquisition).
func (ex *Exec) checkFrame(fc *FuncContract, ret *State, fn *ssa.Function) {
	if !fc.HasMod || fc.IsStub || fc.Trusted {
		return
	}
	if fc.FrameTrusted != "" {
		ex.assumedClauses = append(ex.assumedClauses, fmt.Sprintf("%s: declared frame (modifies) assumed, not proved -- %s", FuncName(fn), fc.FrameTrusted))
		return
	}
	ts := ex.ts
	apply := func(target *State) {
		ts.frameMode = true
		ts.frameSeq = 0
		defer func() { ts.frameMode = false }()
		ctx := &EvalCtx{ex: ex, st: ex.entry, hst: target, old: ex.entry, env: ex.entryEnv, pkg: fc.Pkg, fnPos: fn.Pos()}
		for _, m := range fc.Modifies {
			if err := ctx.havocTarget(m.Expr); err != nil {
				ex.contractProblem("%s: modifies %s: %v", fc.Pos, m.Text, err)
			}
		}
		for _, k := range fc.Havoc {
			ex.havocKey(target, k)
		}
		for _, g := range fc.Ghosts {
			decl, ok := ex.prog.Contracts.GhostMaps[g.Map]
			if !ok {
				continue
			}
			k, _, err := ctx.evalTerm(g.Key)
			if err != nil {
				continue
			}
			arr := ex.heapGet(target, "G:"+g.Map, SArray(ghostSort(decl.Key), ghostSort(decl.Val)))
			ex.heapSet(target, "G:"+g.Map, ts.Store(arr, k, ts.Fresh("g!"+g.Map, ghostSort(decl.Val))))
		}
	}
	e1 := ex.entry.Clone()
	apply(e1)
	f1 := ret.Clone()
	apply(f1)
	skip := KeySet{}
	for mk := range ex.monitorsAcquired {
		if md := ex.prog.Contracts.Monitors[mk]; md != nil {
			ex.prog.Pre.mu.Lock()
			ex.prog.Pre.monitorKeys(md, skip)
			ex.prog.Pre.mu.Unlock()
		}
	}
	diff := ex.heapDiff(f1, e1)
	var keys []string
	for k := range diff {
		if skip[k] {
			continue
		}
		keys = append(keys, k)
	}
	sort.Strings(keys)
	for _, k := range keys {
		ex.oblige("frame@return", k, fn.Pos(), fc.Props, ret, diff[k])
	}
}
