package main

// Whole-package pre-pass over the SSA of the target packages:
//   - escape analysis of local Allocs (Go-side cells vs heap cells)
//   - address-taken scalar fields (accessed through memory cells instead of
//     per-field heap arrays)
//   - transitive write-sets (heap keys) per function, for frames
//   - static call graph, recursion, inlinability

import (
	"fmt"
	"go/token"
	"go/types"
	"sort"
	"strings"
	"sync"

	"golang.org/x/tools/go/ssa"
)

type Prepass struct {
	prog        *Program
	tm          *TypeMap
	EscAlloc    map[*ssa.Alloc]bool
	AddrTaken   map[string]bool            // field key -> address taken
	WriteSet    map[*ssa.Function]KeySet   // transitive
	DirectWrite map[*ssa.Function]KeySet   // intra-procedural
	Callees     map[*ssa.Function][]*ssa.Function
	Recursive   map[*ssa.Function]bool
	Impls       map[string][]*ssa.Function // method name -> implementations in target pkgs
	FuncValues  []*ssa.Function            // functions used as values (closures, method values)
	LockTouch   map[*ssa.Function]bool     // transitively calls a lock operation / lock-effect contract
	ChanOps     map[*ssa.Function]bool
	frozen      bool // set when RunPrepass is done
	mu          sync.Mutex
}

type KeySet map[string]bool

func (k KeySet) addAll(o KeySet) bool {
	ch := false
	for x := range o {
		if !k[x] {
			k[x] = true
			ch = true
		}
	}
	return ch
}
func (k KeySet) Sorted() []string {
	var out []string
	for x := range k {
		out = append(out, x)
	}
	sort.Strings(out)
	return out
}

func RunPrepass(p *Program) *Prepass {
	pp := &Prepass{prog: p, EscAlloc: map[*ssa.Alloc]bool{}, AddrTaken: map[string]bool{}, WriteSet: map[*ssa.Function]KeySet{},
		DirectWrite: map[*ssa.Function]KeySet{}, Callees: map[*ssa.Function][]*ssa.Function{}, Recursive: map[*ssa.Function]bool{},
		Impls: map[string][]*ssa.Function{}, LockTouch: map[*ssa.Function]bool{}, ChanOps: map[*ssa.Function]bool{}}
	pp.tm = NewTypeMap(p, NewTermStore())
	for _, fn := range p.FuncList {
		if fn.Signature.Recv() != nil {
			pp.Impls[fn.Name()] = append(pp.Impls[fn.Name()], fn)
		}
	}
	// pass 1: escape + address-taken
	for _, fn := range p.FuncList {
		for _, b := range fn.Blocks {
			for _, ins := range b.Instrs {
				switch x := ins.(type) {
				case *ssa.Alloc:
					pp.EscAlloc[x] = pp.allocEscapes(x)
				case *ssa.FieldAddr:
					st := derefType(x.X.Type()).Underlying().(*types.Struct)
					ft := st.Field(x.Field).Type()
					if _, isStruct := ft.Underlying().(*types.Struct); isStruct {
						continue // sub-object or opaque external struct
					}
					if pointerEscapes(x, map[ssa.Value]bool{}) {
						pp.AddrTaken[pp.tm.FieldKey(derefType(x.X.Type()), x.Field)] = true
					}
				}
			}
		}
	}
	// pass 2: direct write sets and call edges
	for _, fn := range p.FuncList {
		pp.DirectWrite[fn] = pp.directWrites(fn)
	}
	// function values
	seenFV := map[*ssa.Function]bool{}
	for _, fn := range p.FuncList {
		for _, b := range fn.Blocks {
			for _, ins := range b.Instrs {
				var ops []*ssa.Value
				ops = ins.Operands(ops)
				for i, op := range ops {
					if op == nil || *op == nil {
						continue
					}
					if call, ok := ins.(ssa.CallInstruction); ok && i == 0 && !call.Common().IsInvoke() && call.Common().Value == *op {
						if _, isMC := (*op).(*ssa.MakeClosure); !isMC {
							continue // static call position
						}
					}
					switch v := (*op).(type) {
					case *ssa.Function:
						if !seenFV[v] && v.Blocks != nil {
							seenFV[v] = true
							pp.FuncValues = append(pp.FuncValues, v)
						}
					case *ssa.MakeClosure:
						f := v.Fn.(*ssa.Function)
						if !seenFV[f] {
							seenFV[f] = true
							pp.FuncValues = append(pp.FuncValues, f)
						}
					}
				}
			}
		}
	}
	// fixpoint for transitive write sets
	for _, fn := range p.FuncList {
		ws := KeySet{}
		ws.addAll(pp.DirectWrite[fn])
		pp.WriteSet[fn] = ws
	}
	changed := true
	for changed {
		changed = false
		for _, fn := range p.FuncList {
			ws := pp.WriteSet[fn]
			for _, c := range pp.possibleCallees(fn) {
				if cws, ok := pp.WriteSet[c]; ok {
					if ws.addAll(cws) {
						changed = true
					}
				}
				if pp.LockTouch[c] && !pp.LockTouch[fn] {
					pp.LockTouch[fn] = true
					changed = true
				}
			}
		}
	}
	// recursion: function reachable from itself through static callees
	for _, fn := range p.FuncList {
		seen := map[*ssa.Function]bool{}
		var stack []*ssa.Function
		stack = append(stack, pp.Callees[fn]...)
		for len(stack) > 0 {
			c := stack[len(stack)-1]
			stack = stack[:len(stack)-1]
			if c == fn {
				pp.Recursive[fn] = true
				break
			}
			if seen[c] {
				continue
			}
			seen[c] = true
			stack = append(stack, pp.Callees[c]...)
		}
	}
	pp.frozen = true
	return pp
}

// pointerEscapes reports whether pointer value v is used other than as the
// address of a load/store or as the base of further address computations.
func pointerEscapes(v ssa.Value, seen map[ssa.Value]bool) bool {
	if seen[v] {
		return false
	}
	seen[v] = true
	refs := v.Referrers()
	if refs == nil {
		return true
	}
	for _, r := range *refs {
		switch x := r.(type) {
		case *ssa.UnOp:
			if x.X == v { // load
				continue
			}
			return true
		case *ssa.Store:
			if x.Addr == v && x.Val != v {
				continue
			}
			return true
		case *ssa.FieldAddr:
			if x.X == v {
				if pointerEscapes(x, seen) {
					return true
				}
				continue
			}
			return true
		case *ssa.IndexAddr:
			if x.X == v {
				if pointerEscapes(x, seen) {
					return true
				}
				continue
			}
			return true
		case *ssa.DebugRef:
			continue
		default:
			return true
		}
	}
	return false
}

func (pp *Prepass) allocEscapes(a *ssa.Alloc) bool {
	return allocEscapesRec(a, map[ssa.Value]bool{})
}

func allocEscapesRec(v ssa.Value, seen map[ssa.Value]bool) bool {
	if seen[v] {
		return false
	}
	seen[v] = true
	refs := v.Referrers()
	if refs == nil {
		return true
	}
	for _, r := range *refs {
		switch x := r.(type) {
		case *ssa.UnOp:
			if x.X == v {
				continue
			}
			return true
		case *ssa.Store:
			if x.Addr == v && x.Val != v {
				continue
			}
			return true
		case *ssa.FieldAddr:
			if x.X == v {
				// a pointer into a local struct: fine if itself non-escaping,
				// unless the field is a struct whose address is used as receiver
				if allocEscapesRec(x, seen) {
					return true
				}
				continue
			}
			return true
		case *ssa.IndexAddr:
			if x.X == v {
				if allocEscapesRec(x, seen) {
					return true
				}
				continue
			}
			return true
		case *ssa.MakeClosure:
			// captured by a closure: stays a Go-side cell shared with the closure
			continue
		case *ssa.DebugRef:
			continue
		default:
			return true
		}
	}
	return false
}

func (pp *Prepass) staticCallee(c *ssa.CallCommon) *ssa.Function {
	if c.IsInvoke() {
		return nil
	}
	switch v := c.Value.(type) {
	case *ssa.Function:
		return v
	case *ssa.MakeClosure:
		return v.Fn.(*ssa.Function)
	}
	return nil
}

func sigKey(s *types.Signature) string {
	return types.TypeString(types.NewSignatureType(nil, nil, nil, s.Params(), s.Results(), s.Variadic()), nil)
}

// possibleCallees: in-package targets that a call in fn may reach.
func (pp *Prepass) possibleCallees(fn *ssa.Function) []*ssa.Function {
	if c, ok := pp.Callees[fn]; ok {
		return c
	}
	seen := map[*ssa.Function]bool{}
	var out []*ssa.Function
	for _, b := range fn.Blocks {
		for _, ins := range b.Instrs {
			call, ok := ins.(ssa.CallInstruction)
			if !ok {
				continue
			}
			for _, f := range pp.calleesOf(fn, call.Common()) {
				if !seen[f] {
					seen[f] = true
					out = append(out, f)
				}
			}
		}
	}
	pp.Callees[fn] = out
	return out
}

// directWrites computes the heap keys fn may write by its own instructions.
func (pp *Prepass) directWrites(fn *ssa.Function) KeySet {
	ws := KeySet{}
	for _, b := range fn.Blocks {
		for _, ins := range b.Instrs {
			pp.instrWrites(fn, ins, ws)
		}
	}
	return ws
}

// instrWrites adds the heap keys instruction ins may write itself (callee
// bodies excluded; stubs of external callees included).
func (pp *Prepass) instrWrites(fn *ssa.Function, ins ssa.Instruction, ws KeySet) {
	pp.instrWritesIn(fn, ins, ws, nil)
}

// freshAddr: the address points into an object allocated by this very
// function inside scope (nil: anywhere in the function). Such an object does
// not exist in the state the write-set is applied to (the caller's state at
// the call, the loop-head state), so the store is not a write to anything
// that state knows about. Pointers are followed through non-escaping local
// variables all of whose assignments are fresh objects.
func (pp *Prepass) freshAddr(v ssa.Value, scope map[*ssa.BasicBlock]bool, depth int) bool {
	if depth > 6 {
		return false
	}
	switch x := v.(type) {
	case *ssa.FieldAddr:
		return pp.freshAddr(x.X, scope, depth+1)
	case *ssa.IndexAddr:
		if _, ok := x.X.Type().Underlying().(*types.Pointer); ok {
			return pp.freshAddr(x.X, scope, depth+1)
		}
		return false
	case *ssa.Alloc:
		if !x.Heap || !pp.EscAlloc[x] {
			return false
		}
		return scope == nil || scope[x.Block()]
	case *ssa.UnOp:
		if x.Op != token.MUL {
			return false
		}
		cell, ok := x.X.(*ssa.Alloc)
		if !ok || pp.EscAlloc[cell] {
			return false
		}
		refs := cell.Referrers()
		if refs == nil {
			return false
		}
		stores := 0
		for _, r := range *refs {
			switch s := r.(type) {
			case *ssa.Store:
				if s.Addr != cell {
					return false
				}
				if scope != nil && !scope[s.Block()] {
					return false
				}
				if !pp.freshAddr(s.Val, scope, depth+1) {
					return false
				}
				stores++
			case *ssa.UnOp:
				// load
			case *ssa.DebugRef:
			default:
				return false
			}
		}
		return stores > 0
	}
	return false
}

func (pp *Prepass) instrWritesIn(fn *ssa.Function, ins ssa.Instruction, ws KeySet, scope map[*ssa.BasicBlock]bool) {
	if pp.frozen {
		// called from verification threads (loop write-sets): the type map
		// of the pre-pass has unsynchronised caches
		pp.mu.Lock()
		defer pp.mu.Unlock()
	}
	tm := pp.tm
	switch x := ins.(type) {
	case *ssa.Store:
		if pp.freshAddr(x.Addr, scope, 0) {
			return
		}
		pp.addrKeys(x.Addr, ws)
	case *ssa.MapUpdate:
		mt := x.Map.Type().Underlying().(*types.Map)
		ws[MapDomKey(tm.SortOf(mt.Key()), mt)] = true
		ws[MapValKey(tm.SortOf(mt.Key()), tm.SortOf(mt.Elem()), mt)] = true
		ws[MapCardKey] = true
	case *ssa.MakeMap:
		mt := x.Type().Underlying().(*types.Map)
		ws[MapDomKey(tm.SortOf(mt.Key()), mt)] = true
		ws[MapCardKey] = true
	case *ssa.MakeSlice:
		ws[pp.elemKey(x.Type().Underlying().(*types.Slice).Elem())] = true
	case *ssa.MakeChan:
		ws["G:closed"] = true
	case *ssa.Send:
		ws["G:sent"] = true
	case *ssa.Select:
		for _, s := range x.States {
			if s.Dir == types.SendOnly {
				ws["G:sent"] = true
			} else {
				ws["G:recvd"] = true
			}
		}
	case *ssa.UnOp:
		if x.Op == token.ARROW {
			ws["G:recvd"] = true
		}
	case *ssa.Slice:
		if pt, ok := x.X.Type().Underlying().(*types.Pointer); ok {
			if at, ok := pt.Elem().Underlying().(*types.Array); ok {
				ws[pp.elemKey(at.Elem())] = true
			}
		}
	case *ssa.Alloc:
		// the zero-initialisation of a new object is not a write to anything
		// that existed before (see freshAddr)
	case ssa.CallInstruction:
		cc := x.Common()
		if bi, ok := cc.Value.(*ssa.Builtin); ok {
			switch bi.Name() {
			case "append", "copy":
				if st, ok := cc.Args[0].Type().Underlying().(*types.Slice); ok {
					ws[pp.elemKey(st.Elem())] = true
				}
			case "delete":
				mt := cc.Args[0].Type().Underlying().(*types.Map)
				ws[MapDomKey(tm.SortOf(mt.Key()), mt)] = true
				ws[MapCardKey] = true
			case "clear":
				switch t := cc.Args[0].Type().Underlying().(type) {
				case *types.Map:
					ws[MapDomKey(tm.SortOf(t.Key()), t)] = true
					ws[MapCardKey] = true
				case *types.Slice:
					ws[pp.elemKey(t.Elem())] = true
				}
			case "close":
				ws["G:closed"] = true
			}
			return
		}
		// contract of the callee: explicit havoc keys and ghost updates
		name := calleeName(cc)
		if fc, ok := pp.prog.Contracts.Funcs[name]; ok {
			for _, k := range fc.Havoc {
				ws[k] = true
			}
			for _, g := range fc.Ghosts {
				ws["G:"+g.Map] = true
			}
			pp.stubFrameKeys(fc, cc, ws)
			if len(fc.LockFx) > 0 && fn != nil && !pp.frozen {
				// (only while the pre-pass itself runs: afterwards the
				// tables are shared read-only between verification threads)
				pp.LockTouch[fn] = true
			}
			// acquiring a lock exposes the state it guards to interference:
			// the guarded fields of every declared monitor count as written
			for _, le := range fc.LockFx {
				if le.Delta > 0 && !le.Read {
					for _, md := range pp.prog.Contracts.Monitors {
						pp.monitorKeys(md, ws)
					}
					break
				}
			}
		}
		sc := pp.staticCallee(cc)
		if sc == nil || sc.Blocks == nil {
			// unknown body: it may write through scalar pointers handed to it
			for _, a := range cc.Args {
				if pt, ok := a.Type().Underlying().(*types.Pointer); ok {
					if _, isStruct := pt.Elem().Underlying().(*types.Struct); !isStruct {
						ws[tm.MemKey(pt.Elem())] = true
					}
				}
			}
		}
	}
}

// stubFrameKeys translates the modifies targets of a callee contract into
// heap keys, as far as they can be read off the call itself (ghost maps,
// all(argN), elems(argN), *argN). It reports whether every target could be
// translated; only then may the declared frame replace the write-sets of the
// possible implementations of an interface method.
func (pp *Prepass) stubFrameKeys(fc *FuncContract, cc *ssa.CallCommon, ws KeySet) bool {
	all := true
	args := cc.Args
	if cc.IsInvoke() {
		args = append([]ssa.Value{cc.Value}, cc.Args...)
	}
	argOf := func(e *SExpr) ssa.Value {
		if e == nil || e.Kind != "ident" || !strings.HasPrefix(e.Name, "arg") {
			return nil
		}
		n := 0
		if _, err := fmt.Sscanf(e.Name, "arg%d", &n); err != nil || n < 0 || n >= len(args) {
			return nil
		}
		return args[n]
	}
	for _, m := range fc.Modifies {
		e := m.Expr
		switch {
		case e.Kind == "ident" || e.Kind == "index":
			g := e
			if g.Kind == "index" {
				g = g.Args[0]
			}
			if g.Kind == "ident" {
				if _, ok := pp.prog.Contracts.GhostMaps[g.Name]; ok {
					ws["G:"+g.Name] = true
					continue
				}
			}
			all = false
		case e.Kind == "call" && (e.Name == "all" || e.Name == "elems") && len(e.Args) == 1:
			a := argOf(e.Args[0])
			if a == nil {
				all = false
				continue
			}
			if e.Name == "all" {
				pp.pointeeKeys(a.Type(), ws)
			} else if st, ok := a.Type().Underlying().(*types.Slice); ok {
				ws[pp.elemKey(st.Elem())] = true
			} else {
				all = false
			}
		case e.Kind == "unary" && e.Name == "*" && len(e.Args) == 1:
			a := argOf(e.Args[0])
			if a == nil {
				all = false
				continue
			}
			pp.pointeeKeys(a.Type(), ws)
		default:
			all = false
		}
	}
	return all
}

// calleesOf: in-package functions one call may reach.
func (pp *Prepass) calleesOf(fn *ssa.Function, cc *ssa.CallCommon) []*ssa.Function {
	var out []*ssa.Function
	add := func(f *ssa.Function) {
		if f == nil {
			return
		}
		if f.Origin() != nil {
			f = f.Origin()
		}
		if f.Blocks == nil {
			if t, ok := pp.prog.Funcs[FuncName(f)]; ok {
				f = t
			} else {
				return
			}
		}
		out = append(out, f)
	}
	if cc.IsInvoke() {
		// an interface method with an assumed contract that declares its
		// frame: the contract stands in for every implementation
		if fc, ok := pp.prog.Contracts.Funcs[calleeName(cc)]; ok && fc.IsStub && fc.HasMod {
			if pp.stubFrameKeys(fc, cc, KeySet{}) {
				return nil
			}
		}
		for _, impl := range pp.Impls[cc.Method.Name()] {
			if sigKey(impl.Signature) == sigKey(cc.Method.Type().(*types.Signature)) {
				add(impl)
			}
		}
		return out
	}
	if sc := pp.staticCallee(cc); sc != nil {
		add(sc)
		return out
	}
	if _, isBuiltin := cc.Value.(*ssa.Builtin); isBuiltin {
		return nil
	}
	sig, _ := cc.Value.Type().Underlying().(*types.Signature)
	if sig == nil {
		return nil
	}
	for _, f := range pp.FuncValues {
		if sigKey(f.Signature) == sigKey(sig) {
			add(f)
		}
	}
	return out
}

// addrKeys adds the heap keys a store through addr may touch.
func (pp *Prepass) addrKeys(addr ssa.Value, ws KeySet) {
	tm := pp.tm
	switch a := addr.(type) {
	case *ssa.Alloc:
		if pp.EscAlloc[a] {
			pp.pointeeKeys(a.Type(), ws)
		}
		return
	case *ssa.FieldAddr:
		// walk to the root of a field/index chain
		st := derefType(a.X.Type())
		if root, ok := chainRoot(a); ok {
			if al, ok := root.(*ssa.Alloc); ok && !pp.EscAlloc[al] {
				return
			}
			if ia, ok := root.(*ssa.IndexAddr); ok {
				pp.addrKeys(ia, ws)
				return
			}
		}
		key := tm.FieldKey(st, a.Field)
		ft := st.Underlying().(*types.Struct).Field(a.Field).Type()
		if _, isT := tm.isTargetStruct(ft); isT {
			pp.structKeys(ft, ws)
			return
		}
		if pp.AddrTaken[key] {
			ws[tm.MemKey(ft)] = true
		} else {
			ws[key] = true
		}
		return
	case *ssa.IndexAddr:
		switch t := a.X.Type().Underlying().(type) {
		case *types.Slice:
			ws[pp.elemKey(t.Elem())] = true
		case *types.Pointer: // pointer to array
			pp.addrKeys(a.X, ws)
		}
		return
	case *ssa.FreeVar:
		// captured cell of the enclosing function: Go-side unless escaping
		return
	}
	pp.pointeeKeys(addr.Type(), ws)
}

// chainRoot walks FieldAddr chains whose intermediate values are Go-side
// (fields of struct values held in cells or elements).
func chainRoot(a *ssa.FieldAddr) (ssa.Value, bool) {
	var cur ssa.Value = a
	for {
		switch x := cur.(type) {
		case *ssa.FieldAddr:
			cur = x.X
		case *ssa.IndexAddr:
			if _, ok := x.X.Type().Underlying().(*types.Pointer); ok {
				cur = x.X
				continue
			}
			return x, true
		case *ssa.Alloc:
			return x, true
		default:
			return cur, false
		}
	}
}

func (pp *Prepass) pointeeKeys(ptrType types.Type, ws KeySet) {
	el := derefType(ptrType)
	if el == nil {
		return
	}
	if _, ok := pp.tm.isTargetStruct(el); ok {
		pp.structKeys(el, ws)
		return
	}
	ws[pp.tm.MemKey(el)] = true
}

func (pp *Prepass) structKeys(t types.Type, ws KeySet) {
	st := t.Underlying().(*types.Struct)
	for i := 0; i < st.NumFields(); i++ {
		ft := st.Field(i).Type()
		if _, ok := pp.tm.isTargetStruct(ft); ok {
			pp.structKeys(ft, ws)
			continue
		}
		key := pp.tm.FieldKey(t, i)
		if pp.AddrTaken[key] {
			ws[pp.tm.MemKey(ft)] = true
		} else {
			ws[key] = true
		}
	}
}

// calleeName gives the contract lookup name of a call.
func calleeName(cc *ssa.CallCommon) string {
	if cc.IsInvoke() {
		recv := cc.Value.Type()
		return "(" + typeKey(recv) + ")." + cc.Method.Name()
	}
	switch v := cc.Value.(type) {
	case *ssa.Function:
		f := v
		if f.Origin() != nil {
			f = f.Origin()
		}
		return FuncName(f)
	case *ssa.MakeClosure:
		return FuncName(v.Fn.(*ssa.Function))
	case *ssa.Builtin:
		return "builtin." + v.Name()
	}
	return ""
}

// monitorKeys adds the heap keys of the fields guarded by monitor md.
func (pp *Prepass) monitorKeys(md *MonitorDecl, ws KeySet) {
	if md.Pkg == nil || md.Pkg.Types == nil {
		return
	}
	obj := md.Pkg.Types.Scope().Lookup(md.TypeName)
	if obj == nil {
		return
	}
	su, ok := obj.Type().Underlying().(*types.Struct)
	if !ok {
		return
	}
	for i := 0; i < su.NumFields(); i++ {
		for _, g := range md.Guards {
			if su.Field(i).Name() != g {
				continue
			}
			ft := su.Field(i).Type()
			if _, isT := pp.tm.isTargetStruct(ft); isT {
				pp.structKeys(ft, ws)
				continue
			}
			key := pp.tm.FieldKey(obj.Type(), i)
			if pp.AddrTaken[key] {
				ws[pp.tm.MemKey(ft)] = true
			} else {
				ws[key] = true
			}
		}
	}
}

// KeysWithPrefix lists all heap keys (fields of the loaded packages, memory
// cells, slice/map contents) whose name starts with prefix.
// elemKey is the write-set key for writes to the elements of arrays of Go
// element type el: the heap array of the element sort, qualified with the
// element type unless that is (or contains) a type parameter.
func (pp *Prepass) elemKey(el types.Type) string {
	k := ElemKey(pp.tm.SortOf(el))
	tk := typeKey(el)
	if strings.Contains(tk, "$") || strings.Contains(tk, "@") {
		return k
	}
	return k + "@" + tk
}

func (pp *Prepass) KeysWithPrefix(prefix string) []string {
	set := KeySet{}
	regMu.Lock()
	for k := range fieldTypeRegistry {
		if pp.AddrTaken[k] {
			continue
		}
		if strings.HasPrefix(k, prefix) {
			set[k] = true
		}
	}
	regMu.Unlock()
	for _, ws := range pp.WriteSet {
		for k := range ws {
			if strings.HasPrefix(k, prefix) && !strings.HasSuffix(k, "*") {
				if i := strings.Index(k, "@"); i >= 0 && strings.HasPrefix(k, "E:") {
					// a pattern means every array of the sort
					k = k[:i]
				}
				set[k] = true
			}
		}
	}
	return set.Sorted()
}

func (pp *Prepass) Inlinable(fn *ssa.Function) bool {
	if fn.Blocks == nil || pp.Recursive[fn] {
		return false
	}
	n := 0
	for _, b := range fn.Blocks {
		n += len(b.Instrs)
	}
	return n <= 120
}

var _ = strings.HasPrefix
