package main

// Mapping of Go types to SMT sorts and heap keys.

import (
	"fmt"
	"go/types"
	"math/big"
	"strings"
	"sync"
)

type TypeMap struct {
	prog   *Program
	ts     *TermStore
	dtOf   map[string]*Datatype // by datatype name
	stOf   map[string]*types.Struct
	stName map[string]string // datatype name -> type key
	slice  *Datatype
}

func NewTypeMap(p *Program, ts *TermStore) *TypeMap {
	tm := &TypeMap{prog: p, ts: ts, dtOf: map[string]*Datatype{}, stOf: map[string]*types.Struct{}, stName: map[string]string{}}
	tm.slice = &Datatype{Name: "Slice", Ctor: "mk_Slice", Fields: []DTField{{"sl_arr", SInt}, {"sl_off", SInt}, {"sl_len", SInt}, {"sl_cap", SInt}}}
	ts.DeclareDT(tm.slice)
	return tm
}

// typeKey returns a stable printable key of a (named) type: "pkg/rel.T".
func typeKey(t types.Type) string {
	t = types.Unalias(t)
	switch tt := t.(type) {
	case *types.Named:
		o := tt.Origin().Obj()
		if o.Pkg() == nil {
			return o.Name()
		}
		return relPkg(o.Pkg().Path()) + "." + o.Name()
	case *types.Pointer:
		return "*" + typeKey(tt.Elem())
	case *types.Struct:
		return fmt.Sprintf("struct%p", tt)
	case *types.TypeParam:
		return "$" + tt.Obj().Name()
	}
	return types.TypeString(t, func(p *types.Package) string { return relPkg(p.Path()) })
}

// isTargetStruct: struct type declared in a loaded target package (so that its
// fields are modelled individually).
func (tm *TypeMap) isTargetStruct(t types.Type) (*types.Struct, bool) {
	t = types.Unalias(t)
	st, ok := t.Underlying().(*types.Struct)
	if !ok {
		return nil, false
	}
	if n, ok := t.(*types.Named); ok {
		if tm.prog.IsTargetPkg(n.Obj().Pkg()) {
			return st, true
		}
		return st, false
	}
	// anonymous struct types: modelled if written in a target package (we
	// cannot know; treat as target)
	return st, true
}

// SortOf maps a Go type to its SMT sort.
func (tm *TypeMap) SortOf(t types.Type) *Sort {
	t = types.Unalias(t)
	switch u := t.Underlying().(type) {
	case *types.Basic:
		switch {
		case u.Info()&types.IsBoolean != 0:
			return SBool
		case u.Info()&types.IsFloat != 0:
			return SReal
		}
		return SInt
	case *types.Slice:
		return mkSort("Slice")
	case *types.Array:
		return SArray(SInt, tm.SortOf(u.Elem()))
	case *types.Struct:
		if _, ok := tm.isTargetStruct(t); ok {
			return mkSort(tm.structDT(t).Name)
		}
		return SInt // opaque external struct value
	case *types.Tuple:
		panic("tuple has no sort")
	}
	return SInt // pointers, maps, chans, funcs, interfaces, type params
}

func (tm *TypeMap) structDT(t types.Type) *Datatype {
	key := typeKey(t)
	name := "S_" + smtIdent(key)
	if dt, ok := tm.dtOf[name]; ok {
		return dt
	}
	st := t.Underlying().(*types.Struct)
	dt := &Datatype{Name: name, Ctor: "mk_" + name}
	tm.dtOf[name] = dt // (no recursion by value possible)
	for i := 0; i < st.NumFields(); i++ {
		f := st.Field(i)
		dt.Fields = append(dt.Fields, DTField{Sel: fmt.Sprintf("%s..%s", name, f.Name()), Sort: tm.SortOf(f.Type())})
	}
	if len(dt.Fields) == 0 {
		dt.Fields = append(dt.Fields, DTField{Sel: name + "..$unit", Sort: SInt})
	}
	tm.stOf[name] = st
	tm.stName[name] = key
	tm.ts.DeclareDT(dt)
	regMu.Lock()
	if _, ok := structTypeRegistry[name]; !ok {
		structTypeRegistry[name] = t
	}
	regMu.Unlock()
	return dt
}

// structTypeRegistry maps the SMT name of a struct datatype to its Go type, so
// that a sort recovered from a heap key alone (KeySort) can be declared in
// whichever term store needs it.
var structTypeRegistry = map[string]types.Type{}

// declareSorts makes sure every struct datatype mentioned in s is declared in
// this type map's term store.
func (tm *TypeMap) declareSorts(s *Sort) {
	if s == nil {
		return
	}
	if strings.HasPrefix(s.Name, "S_") {
		if _, ok := tm.dtOf[s.Name]; !ok {
			regMu.Lock()
			t, known := structTypeRegistry[s.Name]
			regMu.Unlock()
			if known {
				tm.structDT(t)
			}
		}
	}
	for _, a := range s.Args {
		tm.declareSorts(a)
	}
}

// FieldKey: heap key of field i of struct type t.
func (tm *TypeMap) FieldKey(t types.Type, i int) string {
	st := types.Unalias(t).Underlying().(*types.Struct)
	k := "F:" + typeKey(t) + "." + st.Field(i).Name()
	regMu.Lock()
	if _, ok := fieldTypeRegistry[k]; !ok {
		fieldTypeRegistry[k] = st.Field(i).Type()
	}
	regMu.Unlock()
	return k
}

// fieldTypeRegistry maps field heap keys to the Go type of the field, so that
// the sort of a heap key can be recovered from the key alone.
var fieldTypeRegistry = map[string]types.Type{}
var regMu sync.Mutex

// parseSort parses the String() form of a sort.
func parseSort(s string) *Sort {
	s = strings.TrimSpace(s)
	if !strings.HasPrefix(s, "(") {
		return mkSort(s)
	}
	inner := s[1 : len(s)-1]
	// split at top-level spaces
	var parts []string
	depth, start := 0, 0
	for i := 0; i < len(inner); i++ {
		switch inner[i] {
		case '(':
			depth++
		case ')':
			depth--
		case ' ':
			if depth == 0 {
				parts = append(parts, inner[start:i])
				start = i + 1
			}
		}
	}
	parts = append(parts, inner[start:])
	var args []*Sort
	for _, p := range parts[1:] {
		args = append(args, parseSort(p))
	}
	return mkSort(parts[0], args...)
}

// KeySort recovers the sort of the heap array stored under key.
func (tm *TypeMap) KeySort(key string, cs *ContractSet) *Sort {
	switch {
	case strings.HasPrefix(key, "F:"), strings.HasPrefix(key, "X:"):
		regMu.Lock()
		ft, ok := fieldTypeRegistry["F:"+key[2:]]
		regMu.Unlock()
		if ok {
			return SArray(SInt, tm.SortOf(ft))
		}
		return nil
	case strings.HasPrefix(key, "E:"):
		if i := strings.Index(key, "@"); i >= 0 {
			key = key[:i]
		}
		return SArray(SInt, SArray(SInt, parseSort(key[2:])))
	case strings.HasPrefix(key, "M:"):
		rest := key[2:]
		if i := strings.Index(rest, ":"); i >= 0 {
			rest = rest[:i]
		}
		return SArray(SInt, parseSort(rest))
	case strings.HasPrefix(key, "MD:"):
		// MD:<k>:<maptype> -- sorts contain no ':'
		parts := strings.SplitN(key[3:], ":", 2)
		return SArray(SInt, SArray(parseSort(parts[0]), SBool))
	case strings.HasPrefix(key, "MV:"):
		// MV:<k>:<v>:<maptype>
		parts := strings.SplitN(key[3:], ":", 3)
		if len(parts) < 2 {
			return nil
		}
		return SArray(SInt, SArray(parseSort(parts[0]), parseSort(parts[1])))
	case key == MapCardKey:
		return SArray(SInt, SInt)
	case strings.HasPrefix(key, "G:"):
		if g, ok := cs.GhostMaps[key[2:]]; ok {
			return SArray(ghostSort(g.Key), ghostSort(g.Val))
		}
		if g, ok := cs.GhostFields[key[2:]]; ok {
			return SArray(SInt, ghostSort(g.Sort))
		}
		if key == "G:closed" {
			return SArray(SInt, SBool)
		}
	}
	return nil
}

func ghostSort(s string) *Sort {
	switch s {
	case "bool":
		return SBool
	case "real":
		return SReal
	case "intmap":
		return SArray(SInt, SInt)
	case "boolmap":
		return SArray(SInt, SBool)
	}
	return SInt
}

func sortKey(s *Sort) string { return s.String() }

func ElemKey(s *Sort) string { return "E:" + sortKey(s) }
// MemKey: memory cells reached through pointers are partitioned by the Go
// element type (Go's type safety: a *T only points to T-typed memory; pointer
// conversions between distinct named types are reported by the pre-pass).
func (tm *TypeMap) MemKey(t types.Type) string {
	return "M:" + sortKey(tm.SortOf(t)) + ":" + typeKey(t)
}
// Map contents are partitioned by the (underlying) Go map type: a map value
// is only ever accessed through expressions of that type.
func mapTypeKey(mt *types.Map) string {
	s := types.TypeString(mt, func(p *types.Package) string { return relPkg(p.Path()) })
	return strings.ReplaceAll(s, ":", "_")
}
func MapDomKey(k *Sort, mt *types.Map) string {
	return "MD:" + sortKey(k) + ":" + mapTypeKey(mt)
}
func MapValKey(k, v *Sort, mt *types.Map) string {
	return "MV:" + sortKey(k) + ":" + sortKey(v) + ":" + mapTypeKey(mt)
}

const MapCardKey = "MC"

// ZeroOf returns the zero value term of a sort (for Go zero values).
func (tm *TypeMap) ZeroOf(t types.Type) *Term {
	return tm.zeroSort(tm.SortOf(t))
}

func (tm *TypeMap) zeroSort(s *Sort) *Term {
	ts := tm.ts
	switch {
	case s == SInt:
		return ts.Int(0)
	case s == SBool:
		return ts.False()
	case s == SReal:
		return ts.RealFromInt(ts.Int(0))
	case s.IsArray():
		return ts.ConstArray(s, tm.zeroSort(s.Args[1]))
	case s.Name == "Slice":
		return ts.Construct(tm.slice, ts.Int(0), ts.Int(0), ts.Int(0), ts.Int(0))
	}
	if dt, ok := tm.dtOf[s.Name]; ok {
		var args []*Term
		for _, f := range dt.Fields {
			args = append(args, tm.zeroSort(f.Sort))
		}
		return ts.Construct(dt, args...)
	}
	panic("zero of unknown sort " + s.String())
}

// intRange returns the value range of an integer type (nil, nil for non-integers).
func intRange(t types.Type) (lo, hi *big.Int) {
	b, ok := types.Unalias(t).Underlying().(*types.Basic)
	if !ok || b.Info()&types.IsInteger == 0 {
		return nil, nil
	}
	bits := 64
	switch b.Kind() {
	case types.Int8, types.Uint8:
		bits = 8
	case types.Int16, types.Uint16:
		bits = 16
	case types.Int32, types.Uint32:
		bits = 32
	case types.UntypedInt, types.UntypedRune:
		return nil, nil
	}
	one := big.NewInt(1)
	if b.Info()&types.IsUnsigned != 0 {
		hi = new(big.Int).Sub(new(big.Int).Lsh(one, uint(bits)), one)
		return big.NewInt(0), hi
	}
	hi = new(big.Int).Sub(new(big.Int).Lsh(one, uint(bits-1)), one)
	lo = new(big.Int).Neg(new(big.Int).Lsh(one, uint(bits-1)))
	return lo, hi
}

func isUnsigned(t types.Type) bool {
	b, ok := types.Unalias(t).Underlying().(*types.Basic)
	return ok && b.Info()&types.IsUnsigned != 0
}
func isInteger(t types.Type) bool {
	b, ok := types.Unalias(t).Underlying().(*types.Basic)
	return ok && b.Info()&types.IsInteger != 0
}
func isString(t types.Type) bool {
	b, ok := types.Unalias(t).Underlying().(*types.Basic)
	return ok && b.Info()&types.IsString != 0
}
func isPointerLike(t types.Type) bool {
	switch types.Unalias(t).Underlying().(type) {
	case *types.Pointer, *types.Map, *types.Chan, *types.Signature, *types.Interface:
		return true
	}
	if b, ok := types.Unalias(t).Underlying().(*types.Basic); ok && b.Kind() == types.UnsafePointer {
		return true
	}
	return false
}
func isInterface(t types.Type) bool {
	if _, ok := types.Unalias(t).(*types.TypeParam); ok {
		return false
	}
	_, ok := types.Unalias(t).Underlying().(*types.Interface)
	return ok
}

func derefType(t types.Type) types.Type {
	if p, ok := types.Unalias(t).Underlying().(*types.Pointer); ok {
		return p.Elem()
	}
	return nil
}

func shortType(t types.Type) string {
	s := types.TypeString(t, func(p *types.Package) string { return p.Name() })
	return strings.ReplaceAll(s, modPath+"/", "")
}
