package main

// Tolerance for renamed variables. Contracts name parameters, results, free
// variables and locals of the functions they are attached to. A change that
// only renames such a variable leaves every property intact, so it must not
// make a contract inapplicable (that would be a false alarm). The baseline
// /verif/baseline/locals.json (written by `govc baseline-locals` on the
// unchanged tree, never at check time) records, per function under contract,
// the ordered list of its named variables with their types. When the current
// function has the same number of variables with the same types in the same
// order, a baseline name that no longer exists is an alias of the variable
// now at its position. Any other difference (a variable added, removed or
// retyped) leaves the names alone, and a contract that mentions a missing
// name is reported as before.

import (
	"encoding/json"
	"fmt"
	"os"
	"sync"

	"golang.org/x/tools/go/ssa"
)

type nameType struct {
	Name string `json:"n"`
	Type string `json:"t"`
}

const baselineLocalsFile = "/verif/baseline/locals.json"

var (
	baselineLocalsOnce sync.Once
	baselineLocals     map[string][]nameType
)

func loadBaselineLocals() map[string][]nameType {
	baselineLocalsOnce.Do(func() {
		baselineLocals = map[string][]nameType{}
		data, err := os.ReadFile(baselineLocalsFile)
		if err == nil {
			json.Unmarshal(data, &baselineLocals)
		}
	})
	return baselineLocals
}

// currentVariables lists the named variables of fn in a rename-independent
// order: parameters, free variables, then allocations in instruction order.
func currentVariables(fn *ssa.Function) []nameType {
	var out []nameType
	for _, p := range fn.Params {
		out = append(out, nameType{p.Name(), "param " + typeKey(p.Type())})
	}
	for _, fv := range fn.FreeVars {
		out = append(out, nameType{fv.Name(), "free " + typeKey(fv.Type())})
	}
	for _, b := range fn.Blocks {
		for _, ins := range b.Instrs {
			if a, ok := ins.(*ssa.Alloc); ok && a.Comment != "" {
				out = append(out, nameType{a.Comment, "local " + typeKey(a.Type())})
			}
		}
	}
	return out
}

// renamedVariables returns baseline name -> current name for variables that
// were merely renamed, or nil when the variable lists do not line up.
func renamedVariables(fn *ssa.Function) map[string]string {
	base, ok := loadBaselineLocals()[FuncName(fn)]
	if !ok {
		return nil
	}
	cur := currentVariables(fn)
	if len(cur) != len(base) {
		return nil
	}
	curNames := map[string]bool{}
	for i := range cur {
		if cur[i].Type != base[i].Type {
			return nil
		}
		curNames[cur[i].Name] = true
	}
	var out map[string]string
	for i := range cur {
		if cur[i].Name != base[i].Name && !curNames[base[i].Name] {
			if out == nil {
				out = map[string]string{}
			}
			if prev, dup := out[base[i].Name]; dup && prev != cur[i].Name {
				// one old name for several variables (scopes): only safe when
				// all of them were renamed to the same new name
				return nil
			}
			out[base[i].Name] = cur[i].Name
		}
	}
	return out
}

func aliasRenamed(fn *ssa.Function, env map[string]SV) {
	if fn == nil {
		return
	}
	for old, cur := range renamedVariables(fn) {
		if _, have := env[old]; have {
			continue
		}
		if sv, ok := env[cur]; ok {
			env[old] = sv
		}
		if sv, ok := env["&"+cur]; ok {
			env["&"+old] = sv
		}
	}
}

// cmdBaselineLocals writes the baseline for every function under contract in
// the packages of all properties.
func cmdBaselineLocals() int {
	lv, _ := os.ReadFile("/verif/props/levels.json")
	levels := map[string]json.RawMessage{}
	json.Unmarshal(lv, &levels)
	out := map[string][]nameType{}
	for id := range levels {
		cfg, err := loadPropConfig(id)
		if err != nil {
			continue
		}
		for _, g := range cfg.groups() {
			p, err := LoadProgram(g, nil)
			if err != nil {
				continue
			}
			for name, fc := range p.Contracts.Funcs {
				if fc.IsStub {
					continue
				}
				if fn, ok := p.Funcs[name]; ok && fn.Blocks != nil {
					out[name] = currentVariables(fn)
				}
			}
		}
	}
	os.MkdirAll("/verif/baseline", 0o755)
	data, _ := json.MarshalIndent(out, "", " ")
	if err := os.WriteFile(baselineLocalsFile, data, 0o644); err != nil {
		return 1
	}
	println("functions:", len(out))
	return 0
}

// lockProps: the properties a lock-discipline obligation (balance at return,
// balance per loop iteration, self-deadlock, leaf lock) counts for. A call that
// leaves a lock behind or deadlocks breaks the lock property C14 and, because
// everything that needs the lock then blocks, every property the function is
// under contract for.
func (ex *Exec) lockProps() []string {
	out := []string{"C14"}
	if ex.contract != nil && !ex.contract.IsStub {
		for _, p := range ex.contract.Props {
			if p != "C14" {
				out = append(out, p)
			}
		}
	}
	return out
}

// checkExhaustive: a loop declared `exhaustive` is left only through its
// header. An edge (or a return) that leaves the loop from one of its body
// blocks is an obligation that this path is infeasible.
func (ex *Exec) checkExhaustive(fr *Frame, from, to *ssa.BasicBlock, st *State, loops map[*ssa.BasicBlock]*loopInfo) {
	if !fr.top || ex.contract == nil || !ex.full || st.PC.IsFalse() {
		return
	}
	for _, li := range loops {
		spec := ex.contract.Loops[li.index]
		if spec == nil || (!spec.Exhaustive && len(spec.ExitAsserts) == 0) {
			continue
		}
		if !li.body[from] {
			continue
		}
		if to != nil && li.body[to] {
			continue
		}
		if to != nil && len(to.Instrs) > 0 {
			if _, isPanic := to.Instrs[len(to.Instrs)-1].(*ssa.Panic); isPanic {
				// a panic is not a way of finishing the loop early
				continue
			}
		}
		pos := from.Instrs[len(from.Instrs)-1].Pos()
		// the loop is being left here
		if len(spec.ExitAsserts) > 0 {
			env := ex.localEnv(fr, st)
			ctx := &EvalCtx{ex: ex, st: st, old: ex.entry, env: env, oldEnv: ex.entryEnv, pkg: ex.contract.Pkg, fnPos: ex.fn.Pos()}
			for i, a := range spec.ExitAsserts {
				c, err := ctx.evalBool(a.Expr)
				if err != nil {
					ex.contractProblem("%s: loop %d exit: %v", a.Pos, li.index, err)
					continue
				}
				label := a.Label
				if label == "" {
					label = fmt.Sprintf("%d", i+1)
				}
				ex.oblige("assert@loop-exit", fmt.Sprintf("loop%d:%s", li.index, label), pos, a.Props, st, c)
			}
		}
		if spec.Exhaustive && from != li.head {
			ex.oblige("loop-exhaustive", fmt.Sprintf("loop%d", li.index), pos, ex.contract.Props, st, ex.ts.False())
		}
	}
}
