package main

// Hash-consed SMT term DAG with light simplification and an SMT-LIB2 printer.

import (
	"fmt"
	"math/big"
	"sort"
	"strings"
	"sync"
)

type Sort struct {
	Name string // "Int", "Bool", "Real", "Array", or a datatype name
	Args []*Sort
}

var sortCache = map[string]*Sort{}
var sortMu sync.Mutex

func mkSort(name string, args ...*Sort) *Sort {
	k := name
	for _, a := range args {
		k += "(" + a.String() + ")"
	}
	sortMu.Lock()
	defer sortMu.Unlock()
	if s, ok := sortCache[k]; ok {
		return s
	}
	s := &Sort{Name: name, Args: args}
	sortCache[k] = s
	return s
}

var (
	SInt  = mkSort("Int")
	SBool = mkSort("Bool")
	SReal = mkSort("Real")
)

func SArray(i, e *Sort) *Sort { return mkSort("Array", i, e) }

func (s *Sort) String() string {
	if len(s.Args) == 0 {
		return s.Name
	}
	parts := []string{s.Name}
	for _, a := range s.Args {
		parts = append(parts, a.String())
	}
	return "(" + strings.Join(parts, " ") + ")"
}
func (s *Sort) IsArray() bool { return s.Name == "Array" }

type Term struct {
	Op   string // operator / symbol
	Args []*Term
	Sort *Sort
	ID   int
	Int  *big.Int // for integer literals
	Bnd  []*Term  // bound variables for forall/exists
}

// Datatype declaration (single constructor records only).
type Datatype struct {
	Name   string
	Ctor   string
	Fields []DTField
}
type DTField struct {
	Sel  string
	Sort *Sort
}

// TermStore owns hash-consing and declarations for one verification unit.
type TermStore struct {
	tab     map[string]*Term
	nextID  int
	decls   map[string]*Term // declared constants / functions (by name)
	funs    map[string]*FunDecl
	dts     map[string]*Datatype
	dtOrder []string
	fresh   int
	// frame check mode (see Fresh)
	frameMode bool
	frameSeq  int
	closed    map[int]bool // memo of HasFreeBound: terms without free bound variables
}

type FunDecl struct {
	Name string
	Args []*Sort
	Ret  *Sort
}

func NewTermStore() *TermStore {
	return &TermStore{tab: map[string]*Term{}, decls: map[string]*Term{}, funs: map[string]*FunDecl{}, dts: map[string]*Datatype{}}
}

func (ts *TermStore) key(op string, sort *Sort, args []*Term, bnd []*Term) string {
	var sb strings.Builder
	sb.WriteString(op)
	sb.WriteByte('|')
	sb.WriteString(sort.String())
	for _, b := range bnd {
		fmt.Fprintf(&sb, "^%d", b.ID)
	}
	for _, a := range args {
		fmt.Fprintf(&sb, ",%d", a.ID)
	}
	return sb.String()
}

func (ts *TermStore) mk(op string, sort *Sort, args ...*Term) *Term {
	k := ts.key(op, sort, args, nil)
	if t, ok := ts.tab[k]; ok {
		return t
	}
	ts.nextID++
	t := &Term{Op: op, Args: args, Sort: sort, ID: ts.nextID}
	ts.tab[k] = t
	return t
}

func (ts *TermStore) DeclareDT(dt *Datatype) {
	if _, ok := ts.dts[dt.Name]; ok {
		return
	}
	ts.dts[dt.Name] = dt
	ts.dtOrder = append(ts.dtOrder, dt.Name)
}

// Const declares (or returns) an uninterpreted constant.
func (ts *TermStore) Const(name string, sort *Sort) *Term {
	if t, ok := ts.decls[name]; ok {
		if t.Sort != sort {
			panic(fmt.Sprintf("constant %s redeclared with sort %s (was %s)", name, sort, t.Sort))
		}
		return t
	}
	t := ts.mk("$c:"+name, sort)
	ts.decls[name] = t
	return t
}

func smtIdent(s string) string {
	var sb strings.Builder
	for _, r := range s {
		switch {
		case r >= 'a' && r <= 'z', r >= 'A' && r <= 'Z', r >= '0' && r <= '9', r == '_', r == '.', r == '$', r == '!', r == '#', r == '@', r == '~', r == '%', r == '^', r == '&', r == '-', r == '+', r == '/', r == '<', r == '>', r == '=', r == '?':
			sb.WriteRune(r)
		default:
			fmt.Fprintf(&sb, "_%x_", r)
		}
	}
	return sb.String()
}

func (ts *TermStore) Fresh(prefix string, sort *Sort) *Term {
	if ts.frameMode {
		// frame check: the same sequence of havocs is applied to two states
		// and must produce the same symbols in both
		ts.frameSeq++
		return ts.Const(fmt.Sprintf("frm!%s!%d", smtIdent(prefix), ts.frameSeq), sort)
	}
	ts.fresh++
	return ts.Const(fmt.Sprintf("%s!%d", smtIdent(prefix), ts.fresh), sort)
}

func (ts *TermStore) Fun(name string, ret *Sort, argSorts ...*Sort) *FunDecl {
	if f, ok := ts.funs[name]; ok {
		return f
	}
	f := &FunDecl{Name: name, Args: argSorts, Ret: ret}
	ts.funs[name] = f
	return f
}

func (ts *TermStore) App(f *FunDecl, args ...*Term) *Term {
	if len(args) != len(f.Args) {
		panic("arity mismatch for " + f.Name)
	}
	for i, a := range args {
		if a.Sort != f.Args[i] {
			panic(fmt.Sprintf("sort mismatch for %s arg %d: got %s want %s", f.Name, i, a.Sort, f.Args[i]))
		}
	}
	return ts.mk("$f:"+f.Name, f.Ret, args...)
}

// ---- literals

func (ts *TermStore) True() *Term  { return ts.mk("true", SBool) }
func (ts *TermStore) False() *Term { return ts.mk("false", SBool) }
func (ts *TermStore) Bool(b bool) *Term {
	if b {
		return ts.True()
	}
	return ts.False()
}

func (ts *TermStore) IntBig(v *big.Int) *Term {
	k := "$i:" + v.String()
	if t, ok := ts.tab[k]; ok {
		return t
	}
	ts.nextID++
	t := &Term{Op: "$int", Sort: SInt, ID: ts.nextID, Int: new(big.Int).Set(v)}
	ts.tab[k] = t
	return t
}
func (ts *TermStore) Int(v int64) *Term { return ts.IntBig(big.NewInt(v)) }
func (ts *TermStore) RealFromInt(t *Term) *Term {
	return ts.mk("to_real", SReal, t)
}

func (t *Term) IsTrue() bool  { return t.Op == "true" }
func (t *Term) IsFalse() bool { return t.Op == "false" }
func (t *Term) IsLit() bool   { return t.Op == "$int" }

// ---- boolean ops

func (ts *TermStore) Not(a *Term) *Term {
	if a.IsTrue() {
		return ts.False()
	}
	if a.IsFalse() {
		return ts.True()
	}
	if a.Op == "not" {
		return a.Args[0]
	}
	return ts.mk("not", SBool, a)
}

func (ts *TermStore) And(as ...*Term) *Term {
	var out []*Term
	seen := map[int]bool{}
	for _, a := range as {
		if a.Sort != SBool {
			panic("And of non-bool " + a.Sort.String())
		}
		if a.IsFalse() {
			return ts.False()
		}
		if a.IsTrue() || seen[a.ID] {
			continue
		}
		if a.Op == "and" {
			for _, b := range a.Args {
				if !seen[b.ID] {
					seen[b.ID] = true
					out = append(out, b)
				}
			}
			continue
		}
		seen[a.ID] = true
		out = append(out, a)
	}
	for _, a := range out {
		if a.Op == "not" && seen[a.Args[0].ID] {
			return ts.False()
		}
	}
	switch len(out) {
	case 0:
		return ts.True()
	case 1:
		return out[0]
	}
	return ts.mk("and", SBool, out...)
}

func (ts *TermStore) Or(as ...*Term) *Term {
	var out []*Term
	seen := map[int]bool{}
	for _, a := range as {
		if a.Sort != SBool {
			panic("Or of non-bool")
		}
		if a.IsTrue() {
			return ts.True()
		}
		if a.IsFalse() || seen[a.ID] {
			continue
		}
		if a.Op == "or" {
			for _, b := range a.Args {
				if !seen[b.ID] {
					seen[b.ID] = true
					out = append(out, b)
				}
			}
			continue
		}
		seen[a.ID] = true
		out = append(out, a)
	}
	for _, a := range out {
		if a.Op == "not" && seen[a.Args[0].ID] {
			return ts.True()
		}
	}
	switch len(out) {
	case 0:
		return ts.False()
	case 1:
		return out[0]
	}
	return ts.mk("or", SBool, out...)
}

func (ts *TermStore) Implies(a, b *Term) *Term {
	if a.IsTrue() {
		return b
	}
	if a.IsFalse() || b.IsTrue() {
		return ts.True()
	}
	if b.IsFalse() {
		return ts.Not(a)
	}
	return ts.mk("=>", SBool, a, b)
}

func (ts *TermStore) Ite(c, a, b *Term) *Term {
	if a.Sort != b.Sort {
		panic(fmt.Sprintf("ite sort mismatch %s vs %s", a.Sort, b.Sort))
	}
	if c.IsTrue() {
		return a
	}
	if c.IsFalse() {
		return b
	}
	if a == b {
		return a
	}
	if a.Sort == SBool {
		if a.IsTrue() && b.IsFalse() {
			return c
		}
		if a.IsFalse() && b.IsTrue() {
			return ts.Not(c)
		}
		if a.IsTrue() {
			return ts.Or(c, b)
		}
		if b.IsFalse() {
			return ts.And(c, a)
		}
		if a.IsFalse() {
			return ts.And(ts.Not(c), b)
		}
		if b.IsTrue() {
			return ts.Or(ts.Not(c), a)
		}
	}
	// ite(c, x, ite(c, y, z)) => ite(c, x, z)
	if b.Op == "ite" && b.Args[0] == c {
		b = b.Args[2]
	}
	if a.Op == "ite" && a.Args[0] == c {
		a = a.Args[1]
	}
	if a == b {
		return a
	}
	return ts.mk("ite", a.Sort, c, a, b)
}

func (ts *TermStore) Eq(a, b *Term) *Term {
	if a.Sort != b.Sort {
		panic(fmt.Sprintf("eq sort mismatch %s vs %s (%s, %s)", a.Sort, b.Sort, ts.Show(a), ts.Show(b)))
	}
	if a == b {
		return ts.True()
	}
	if a.IsLit() && b.IsLit() {
		return ts.Bool(a.Int.Cmp(b.Int) == 0)
	}
	if a.Sort == SBool {
		if a.IsTrue() {
			return b
		}
		if b.IsTrue() {
			return a
		}
		if a.IsFalse() {
			return ts.Not(b)
		}
		if b.IsFalse() {
			return ts.Not(a)
		}
	}
	if a.ID > b.ID {
		a, b = b, a
	}
	return ts.mk("=", SBool, a, b)
}
func (ts *TermStore) Neq(a, b *Term) *Term { return ts.Not(ts.Eq(a, b)) }

// ---- arithmetic

func (ts *TermStore) arith(op string, a, b *Term) *Term {
	if a.Sort != b.Sort {
		panic(fmt.Sprintf("arith %s sort mismatch %s vs %s", op, a.Sort, b.Sort))
	}
	if a.IsLit() && b.IsLit() {
		r := new(big.Int)
		switch op {
		case "+":
			return ts.IntBig(r.Add(a.Int, b.Int))
		case "-":
			return ts.IntBig(r.Sub(a.Int, b.Int))
		case "*":
			return ts.IntBig(r.Mul(a.Int, b.Int))
		}
	}
	if op == "+" {
		if a.IsLit() && a.Int.Sign() == 0 {
			return b
		}
		if b.IsLit() && b.Int.Sign() == 0 {
			return a
		}
	}
	if op == "-" {
		if b.IsLit() && b.Int.Sign() == 0 {
			return a
		}
		if a == b && a.Sort == SInt {
			return ts.Int(0)
		}
	}
	if op == "*" {
		if a.IsLit() && a.Int.Cmp(big.NewInt(1)) == 0 {
			return b
		}
		if b.IsLit() && b.Int.Cmp(big.NewInt(1)) == 0 {
			return a
		}
	}
	return ts.mk(op, a.Sort, a, b)
}
func (ts *TermStore) Add(a, b *Term) *Term { return ts.arith("+", a, b) }
func (ts *TermStore) Sub(a, b *Term) *Term { return ts.arith("-", a, b) }
func (ts *TermStore) Mul(a, b *Term) *Term { return ts.arith("*", a, b) }
func (ts *TermStore) Neg(a *Term) *Term {
	if a.IsLit() {
		return ts.IntBig(new(big.Int).Neg(a.Int))
	}
	return ts.mk("-", a.Sort, a)
}

// Go semantics: truncated division. SMT div is floor for positive divisor
// (euclidean). We express truncated division via ite when signs are unknown.
func (ts *TermStore) DivEuclid(a, b *Term) *Term { return ts.mk("div", SInt, a, b) }
func (ts *TermStore) ModEuclid(a, b *Term) *Term { return ts.mk("mod", SInt, a, b) }
func (ts *TermStore) RealDiv(a, b *Term) *Term   { return ts.mk("/", SReal, a, b) }

func (ts *TermStore) cmp(op string, a, b *Term) *Term {
	if a.Sort != b.Sort {
		panic(fmt.Sprintf("cmp %s sort mismatch %s vs %s", op, a.Sort, b.Sort))
	}
	if a.IsLit() && b.IsLit() {
		c := a.Int.Cmp(b.Int)
		switch op {
		case "<":
			return ts.Bool(c < 0)
		case "<=":
			return ts.Bool(c <= 0)
		}
	}
	if a == b {
		return ts.Bool(op == "<=")
	}
	return ts.mk(op, SBool, a, b)
}
func (ts *TermStore) Lt(a, b *Term) *Term { return ts.cmp("<", a, b) }
func (ts *TermStore) Le(a, b *Term) *Term { return ts.cmp("<=", a, b) }
func (ts *TermStore) Gt(a, b *Term) *Term { return ts.cmp("<", b, a) }
func (ts *TermStore) Ge(a, b *Term) *Term { return ts.cmp("<=", b, a) }

// ---- arrays

func (ts *TermStore) Select(a, i *Term) *Term {
	if !a.Sort.IsArray() {
		panic("select on non-array " + a.Sort.String())
	}
	if a.Sort.Args[0] != i.Sort {
		panic(fmt.Sprintf("select index sort mismatch: %s vs %s", a.Sort.Args[0], i.Sort))
	}
	// read-over-write when syntactically decidable
	cur := a
	for cur.Op == "store" {
		if cur.Args[1] == i {
			return cur.Args[2]
		}
		if cur.Args[1].IsLit() && i.IsLit() { // distinct literals
			cur = cur.Args[0]
			continue
		}
		break
	}
	if cur.Op == "$constarr" {
		return cur.Args[0]
	}
	return ts.mk("select", cur.Sort.Args[1], cur, i)
}

func (ts *TermStore) Store(a, i, v *Term) *Term {
	if !a.Sort.IsArray() {
		panic("store on non-array")
	}
	if a.Sort.Args[0] != i.Sort || a.Sort.Args[1] != v.Sort {
		panic(fmt.Sprintf("store sort mismatch: arr %s idx %s val %s", a.Sort, i.Sort, v.Sort))
	}
	if a.Op == "store" && a.Args[1] == i {
		a = a.Args[0]
	}
	return ts.mk("store", a.Sort, a, i, v)
}

func (ts *TermStore) ConstArray(sort *Sort, v *Term) *Term {
	return ts.mk("$constarr", sort, v)
}

// ---- datatypes

func (ts *TermStore) DTSort(name string) *Sort { return mkSort(name) }

func (ts *TermStore) Construct(dt *Datatype, args ...*Term) *Term {
	if len(args) != len(dt.Fields) {
		panic("ctor arity " + dt.Name)
	}
	for i, a := range args {
		if a.Sort != dt.Fields[i].Sort {
			panic(fmt.Sprintf("ctor %s field %s sort mismatch: %s vs %s", dt.Name, dt.Fields[i].Sel, a.Sort, dt.Fields[i].Sort))
		}
	}
	// mk(sel0(x), sel1(x), ...) => x
	if len(args) > 0 && args[0].Op == "$sel:"+dt.Fields[0].Sel {
		x := args[0].Args[0]
		all := true
		for i, a := range args {
			if a.Op != "$sel:"+dt.Fields[i].Sel || a.Args[0] != x {
				all = false
				break
			}
		}
		if all {
			return x
		}
	}
	return ts.mk("$ctor:"+dt.Ctor, mkSort(dt.Name), args...)
}

func (ts *TermStore) SelectField(dt *Datatype, idx int, x *Term) *Term {
	if x.Sort.Name != dt.Name {
		panic(fmt.Sprintf("selector %s on %s", dt.Fields[idx].Sel, x.Sort))
	}
	if x.Op == "$ctor:"+dt.Ctor {
		return x.Args[idx]
	}
	if x.Op == "ite" {
		// push selectors through ite of constructors (keeps merged values small)
		if x.Args[1].Op == "$ctor:"+dt.Ctor || x.Args[2].Op == "$ctor:"+dt.Ctor {
			return ts.Ite(x.Args[0], ts.SelectField(dt, idx, x.Args[1]), ts.SelectField(dt, idx, x.Args[2]))
		}
	}
	return ts.mk("$sel:"+dt.Fields[idx].Sel, dt.Fields[idx].Sort, x)
}

// ---- quantifiers

func (ts *TermStore) BoundVar(name string, sort *Sort) *Term {
	ts.fresh++
	return ts.mk(fmt.Sprintf("$b:%s!%d", smtIdent(name), ts.fresh), sort)
}

func (ts *TermStore) Quant(q string, vars []*Term, body *Term) *Term {
	if body.IsTrue() || body.IsFalse() {
		return body
	}
	k := ts.key(q, SBool, []*Term{body}, vars)
	if t, ok := ts.tab[k]; ok {
		return t
	}
	ts.nextID++
	t := &Term{Op: q, Args: []*Term{body}, Sort: SBool, ID: ts.nextID, Bnd: vars}
	ts.tab[k] = t
	return t
}
func (ts *TermStore) Forall(vars []*Term, body *Term) *Term { return ts.Quant("forall", vars, body) }
func (ts *TermStore) Exists(vars []*Term, body *Term) *Term { return ts.Quant("exists", vars, body) }

// Subst replaces terms (by identity) in t.
func (ts *TermStore) Subst(t *Term, m map[*Term]*Term) *Term {
	memo := map[*Term]*Term{}
	var rec func(*Term) *Term
	rec = func(x *Term) *Term {
		if r, ok := m[x]; ok {
			return r
		}
		if r, ok := memo[x]; ok {
			return r
		}
		if len(x.Args) == 0 {
			memo[x] = x
			return x
		}
		changed := false
		na := make([]*Term, len(x.Args))
		for i, a := range x.Args {
			na[i] = rec(a)
			if na[i] != a {
				changed = true
			}
		}
		var r *Term
		if !changed {
			r = x
		} else {
			r = ts.rebuild(x, na)
		}
		memo[x] = r
		return r
	}
	return rec(t)
}

func (ts *TermStore) rebuild(x *Term, na []*Term) *Term {
	switch x.Op {
	case "not":
		return ts.Not(na[0])
	case "and":
		return ts.And(na...)
	case "or":
		return ts.Or(na...)
	case "=>":
		return ts.Implies(na[0], na[1])
	case "ite":
		return ts.Ite(na[0], na[1], na[2])
	case "=":
		return ts.Eq(na[0], na[1])
	case "+", "*":
		return ts.arith(x.Op, na[0], na[1])
	case "-":
		if len(na) == 1 {
			return ts.Neg(na[0])
		}
		return ts.arith("-", na[0], na[1])
	case "<", "<=":
		return ts.cmp(x.Op, na[0], na[1])
	case "select":
		return ts.Select(na[0], na[1])
	case "store":
		return ts.Store(na[0], na[1], na[2])
	case "forall", "exists":
		return ts.Quant(x.Op, x.Bnd, na[0])
	}
	if strings.HasPrefix(x.Op, "$sel:") {
		dt := ts.dts[x.Args[0].Sort.Name]
		for i, f := range dt.Fields {
			if "$sel:"+f.Sel == x.Op {
				return ts.SelectField(dt, i, na[0])
			}
		}
	}
	return ts.mk(x.Op, x.Sort, na...)
}

// ---- printing

func (ts *TermStore) head(t *Term) string {
	switch {
	case t.Op == "$int":
		if t.Int.Sign() < 0 {
			return "(- " + new(big.Int).Neg(t.Int).String() + ")"
		}
		return t.Int.String()
	case strings.HasPrefix(t.Op, "$c:"):
		return smtIdent(t.Op[3:])
	case strings.HasPrefix(t.Op, "$b:"):
		return smtIdent(t.Op[3:])
	case strings.HasPrefix(t.Op, "$f:"):
		return smtIdent(t.Op[3:])
	case strings.HasPrefix(t.Op, "$ctor:"):
		return smtIdent(t.Op[6:])
	case strings.HasPrefix(t.Op, "$sel:"):
		return smtIdent(t.Op[5:])
	case t.Op == "$constarr":
		return "(as const " + t.Sort.String() + ")"
	}
	return t.Op
}

// Show prints a term fully inline (for diagnostics; may be large).
func (ts *TermStore) Show(t *Term) string {
	var sb strings.Builder
	ts.showRec(&sb, t, 0)
	return sb.String()
}

func (ts *TermStore) showRec(sb *strings.Builder, t *Term, depth int) {
	if depth > 12 {
		sb.WriteString("...")
		return
	}
	if t.Op == "forall" || t.Op == "exists" {
		sb.WriteString("(" + t.Op + " (")
		for _, b := range t.Bnd {
			fmt.Fprintf(sb, "(%s %s)", ts.head(b), b.Sort)
		}
		sb.WriteString(") ")
		ts.showRec(sb, t.Args[0], depth+1)
		sb.WriteString(")")
		return
	}
	if len(t.Args) == 0 {
		sb.WriteString(ts.head(t))
		return
	}
	sb.WriteString("(" + ts.head(t))
	for _, a := range t.Args {
		sb.WriteByte(' ')
		ts.showRec(sb, a, depth+1)
	}
	sb.WriteString(")")
}

// Script renders an SMT-LIB2 script asserting all given formulas. Shared
// sub-terms without bound variables are bound by define-fun.
func (ts *TermStore) Script(asserts []*Term, opts ScriptOpts) string {
	// collect reachable terms, count references, detect bound-var dependence
	refs := map[*Term]int{}
	hasBound := map[*Term]bool{}
	var order []*Term
	var visit func(t *Term)
	visit = func(t *Term) {
		refs[t]++
		if refs[t] > 1 {
			return
		}
		hb := strings.HasPrefix(t.Op, "$b:")
		for _, a := range t.Args {
			visit(a)
			if hasBound[a] {
				hb = true
			}
		}
		// a quantifier binds its variables; the term itself is closed if
		// all free bound vars inside belong to it. We approximate: quantified
		// terms are treated as containing bound vars only if nested inside
		// another quantifier's scope using outer vars. To stay safe, we never
		// name terms that contain any bound var, and quantifier terms are
		// considered closed only when their body uses just their own vars.
		if t.Op == "forall" || t.Op == "exists" {
			hb = ts.freeBoundOutside(t)
		}
		hasBound[t] = hb
		order = append(order, t)
	}
	for _, a := range asserts {
		visit(a)
	}
	var sb strings.Builder
	if opts.Cvc5 {
		sb.WriteString("(set-option :produce-models true)\n")
	}
	logic := opts.Logic
	if logic == "" {
		logic = "ALL"
	}
	fmt.Fprintf(&sb, "(set-logic %s)\n", logic)
	if !opts.Cvc5 {
		sb.WriteString("(set-option :produce-models true)\n")
	}
	// datatypes
	for _, name := range ts.dtOrder {
		dt := ts.dts[name]
		fmt.Fprintf(&sb, "(declare-datatypes ((%s 0)) (((%s", smtIdent(dt.Name), smtIdent(dt.Ctor))
		for _, f := range dt.Fields {
			fmt.Fprintf(&sb, " (%s %s)", smtIdent(f.Sel), f.Sort)
		}
		sb.WriteString("))))\n")
	}
	// declarations used
	usedConsts := map[string]*Term{}
	usedFuns := map[string]bool{}
	for _, t := range order {
		if strings.HasPrefix(t.Op, "$c:") {
			usedConsts[t.Op[3:]] = t
		}
		if strings.HasPrefix(t.Op, "$f:") {
			usedFuns[t.Op[3:]] = true
		}
	}
	var names []string
	for n := range usedConsts {
		names = append(names, n)
	}
	sort.Strings(names)
	for _, n := range names {
		fmt.Fprintf(&sb, "(declare-fun %s () %s)\n", smtIdent(n), usedConsts[n].Sort)
	}
	names = names[:0]
	for n := range usedFuns {
		names = append(names, n)
	}
	sort.Strings(names)
	for _, n := range names {
		f := ts.funs[n]
		var as []string
		for _, a := range f.Args {
			as = append(as, a.String())
		}
		fmt.Fprintf(&sb, "(declare-fun %s (%s) %s)\n", smtIdent(n), strings.Join(as, " "), f.Ret)
	}
	// named shared terms
	named := map[*Term]string{}
	var render func(t *Term) string
	render = func(t *Term) string {
		if n, ok := named[t]; ok {
			return n
		}
		if t.Op == "forall" || t.Op == "exists" {
			var bs []string
			for _, b := range t.Bnd {
				bs = append(bs, fmt.Sprintf("(%s %s)", ts.head(b), b.Sort))
			}
			return fmt.Sprintf("(%s (%s) %s)", t.Op, strings.Join(bs, " "), render(t.Args[0]))
		}
		if len(t.Args) == 0 {
			return ts.head(t)
		}
		parts := make([]string, 0, len(t.Args)+1)
		parts = append(parts, ts.head(t))
		for _, a := range t.Args {
			parts = append(parts, render(a))
		}
		return "(" + strings.Join(parts, " ") + ")"
	}
	for _, t := range order {
		if len(t.Args) == 0 || hasBound[t] {
			continue
		}
		if refs[t] > 1 {
			s := render(t)
			name := fmt.Sprintf("t!%d", t.ID)
			fmt.Fprintf(&sb, "(define-fun %s () %s %s)\n", name, t.Sort, s)
			named[t] = name
		}
	}
	for i, a := range asserts {
		if opts.Names != nil && i < len(opts.Names) && opts.Names[i] != "" {
			fmt.Fprintf(&sb, "(assert (! %s :named %s))\n", render(a), smtIdent(opts.Names[i]))
		} else {
			fmt.Fprintf(&sb, "(assert %s)\n", render(a))
		}
	}
	sb.WriteString("(check-sat)\n")
	if opts.GetModel {
		sb.WriteString("(get-model)\n")
	}
	return sb.String()
}

type ScriptOpts struct {
	Logic    string
	Cvc5     bool
	GetModel bool
	Names    []string
}

// freeBoundOutside reports whether quantified term q mentions bound variables
// that are not its own.
// Mentions reports whether a constant whose name satisfies pred occurs in t.
func (ts *TermStore) Mentions(t *Term, pred func(name string) bool) bool {
	seen := map[int]bool{}
	var rec func(t *Term) bool
	rec = func(t *Term) bool {
		if seen[t.ID] {
			return false
		}
		seen[t.ID] = true
		if strings.HasPrefix(t.Op, "$c:") && pred(t.Op[3:]) {
			return true
		}
		for _, a := range t.Args {
			if rec(a) {
				return true
			}
		}
		return false
	}
	return rec(t)
}

// HasQuantifier reports whether t contains a quantifier.
func (ts *TermStore) HasQuantifier(t *Term) bool {
	seen := map[int]bool{}
	var rec func(t *Term) bool
	rec = func(t *Term) bool {
		if seen[t.ID] {
			return false
		}
		seen[t.ID] = true
		if t.Op == "forall" || t.Op == "exists" {
			return true
		}
		for _, a := range t.Args {
			if rec(a) {
				return true
			}
		}
		return false
	}
	return rec(t)
}

// HasFreeBound reports whether t mentions a bound variable outside the scope
// of a quantifier that binds it (such a term cannot be asserted on its own).
func (ts *TermStore) HasFreeBound(t *Term) bool {
	if ts.closed == nil {
		ts.closed = map[int]bool{}
	}
	var rec func(t *Term, bound map[*Term]bool) bool
	rec = func(t *Term, bound map[*Term]bool) bool {
		if strings.HasPrefix(t.Op, "$b:") {
			return !bound[t]
		}
		if len(t.Args) == 0 {
			return false
		}
		if ts.closed[t.ID] {
			return false
		}
		nb := bound
		if t.Op == "forall" || t.Op == "exists" {
			nb = map[*Term]bool{}
			for k := range bound {
				nb[k] = true
			}
			for _, b := range t.Bnd {
				nb[b] = true
			}
		}
		for _, a := range t.Args {
			if rec(a, nb) {
				return true
			}
		}
		if len(bound) == 0 {
			ts.closed[t.ID] = true
		}
		return false
	}
	return rec(t, map[*Term]bool{})
}

func (ts *TermStore) freeBoundOutside(q *Term) bool {
	own := map[*Term]bool{}
	found := false
	seen := map[*Term]bool{}
	var rec func(t *Term, bound map[*Term]bool)
	rec = func(t *Term, bound map[*Term]bool) {
		if found {
			return
		}
		if strings.HasPrefix(t.Op, "$b:") {
			if !bound[t] {
				found = true
			}
			return
		}
		if t.Op == "forall" || t.Op == "exists" {
			nb := map[*Term]bool{}
			for k := range bound {
				nb[k] = true
			}
			for _, b := range t.Bnd {
				nb[b] = true
			}
			rec(t.Args[0], nb)
			return
		}
		if len(bound) == len(own) && seen[t] {
			return
		}
		if len(bound) == len(own) {
			seen[t] = true
		}
		for _, a := range t.Args {
			rec(a, bound)
		}
	}
	for _, b := range q.Bnd {
		own[b] = true
	}
	rec(q.Args[0], own)
	return found
}
