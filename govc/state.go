package main

// Symbolic values, locations, machine state and state merging.

import (
	"fmt"
	"go/types"

	"golang.org/x/tools/go/ssa"
)

type Value interface{}

// TV: a value with an SMT sort.
type TV struct{ T *Term }

// Loc: a Go-side pointer: root location plus a path into a compound value.
type Loc struct {
	Cell *Cell  // root is a local cell, or
	Key  string // root is select(heap[Key], Idx)
	Idx  *Term
	Sort *Sort // sort of the root value
	Path []PathStep
}
type PathStep struct {
	DT    *Datatype // field step
	Field int
	Index *Term // array index step (DT == nil)
}

type Tuple struct{ Vs []Value }
type Closure struct {
	Fn   *ssa.Function
	Bind []Value
}
type FnVal struct{ Fn *ssa.Function }
type Unknown struct{ Why string }
type MapIter struct {
	M    *Term
	Type *types.Map
	Str  bool
}
type DeferStack struct{}

type Cell struct {
	Name string
	ID   int
	Type types.Type // type of the stored value
	// path condition under which the variable was declared (its Alloc ran);
	// used to pick among same-named variables of disjoint scopes
	AllocPC *Term
}

type DeferEntry struct {
	Site  *ssa.Defer
	Frame *Frame
	Armed *Term
	Fn    Value   // callee value (FnVal / Closure / TV)
	Args  []Value // evaluated at defer time
	Seq   int
}

type State struct {
	PC     *Term
	Cells  map[*Cell]Value
	Heap   map[string]*Term
	Defers []*DeferEntry
	Time   int
}

func (s *State) Clone() *State {
	n := &State{PC: s.PC, Cells: make(map[*Cell]Value, len(s.Cells)), Heap: make(map[string]*Term, len(s.Heap)), Time: s.Time}
	for k, v := range s.Cells {
		n.Cells[k] = v
	}
	for k, v := range s.Heap {
		n.Heap[k] = v
	}
	n.Defers = append([]*DeferEntry(nil), s.Defers...)
	return n
}

// mergeValues merges two values under condition c (c: take a, else b).
func (ex *Exec) mergeValues(c *Term, a, b Value) Value {
	if a == nil {
		return b
	}
	if b == nil {
		return a
	}
	switch av := a.(type) {
	case TV:
		if bv, ok := b.(TV); ok {
			if av.T == bv.T {
				return a
			}
			if av.T.Sort != bv.T.Sort {
				return Unknown{fmt.Sprintf("merge of sorts %s / %s", av.T.Sort, bv.T.Sort)}
			}
			return TV{ex.ts.Ite(c, av.T, bv.T)}
		}
	case Loc:
		if bv, ok := b.(Loc); ok {
			if av.Cell != bv.Cell || av.Key != bv.Key || len(av.Path) != len(bv.Path) {
				break
			}
			out := Loc{Cell: av.Cell, Key: av.Key, Sort: av.Sort}
			if av.Idx != nil {
				out.Idx = ex.ts.Ite(c, av.Idx, bv.Idx)
			}
			ok := true
			for i := range av.Path {
				pa, pb := av.Path[i], bv.Path[i]
				if pa.DT != pb.DT || pa.Field != pb.Field || (pa.Index == nil) != (pb.Index == nil) {
					ok = false
					break
				}
				st := PathStep{DT: pa.DT, Field: pa.Field}
				if pa.Index != nil {
					st.Index = ex.ts.Ite(c, pa.Index, pb.Index)
				}
				out.Path = append(out.Path, st)
			}
			if ok {
				return out
			}
		}
	case Tuple:
		if bv, ok := b.(Tuple); ok && len(av.Vs) == len(bv.Vs) {
			out := Tuple{}
			for i := range av.Vs {
				out.Vs = append(out.Vs, ex.mergeValues(c, av.Vs[i], bv.Vs[i]))
			}
			return out
		}
	case Closure:
		if bv, ok := b.(Closure); ok && av.Fn == bv.Fn && len(av.Bind) == len(bv.Bind) {
			out := Closure{Fn: av.Fn}
			for i := range av.Bind {
				out.Bind = append(out.Bind, ex.mergeValues(c, av.Bind[i], bv.Bind[i]))
			}
			return out
		}
	case FnVal:
		if bv, ok := b.(FnVal); ok && av.Fn == bv.Fn {
			return a
		}
	case DeferStack:
		return a
	case MapIter:
		if bv, ok := b.(MapIter); ok && av.Type == bv.Type {
			return MapIter{M: ex.ts.Ite(c, av.M, bv.M), Type: av.Type, Str: av.Str}
		}
	case Unknown:
		return a
	}
	if u, ok := b.(Unknown); ok {
		return u
	}
	// nil pointer literal merged with a Loc etc.
	return Unknown{fmt.Sprintf("merge of %T / %T", a, b)}
}

// mergeStates merges a list of states with pairwise exclusive path conditions.
func (ex *Exec) mergeStates(sts []*State) *State {
	if len(sts) == 0 {
		return nil
	}
	if len(sts) == 1 {
		return sts[0]
	}
	acc := sts[0]
	for _, s := range sts[1:] {
		acc = ex.merge2(acc, s)
	}
	return acc
}

func (ex *Exec) merge2(a, b *State) *State {
	ts := ex.ts
	c := a.PC
	out := &State{PC: ex.orFactor(a.PC, b.PC), Cells: map[*Cell]Value{}, Heap: map[string]*Term{}}
	if a.Time > b.Time {
		out.Time = a.Time
	} else {
		out.Time = b.Time
	}
	for k, va := range a.Cells {
		if vb, ok := b.Cells[k]; ok {
			out.Cells[k] = ex.mergeValues(c, va, vb)
		} else {
			// a variable not (yet) declared on the other path has its zero value there
			out.Cells[k] = ex.mergeWithZero(c, va, true)
		}
	}
	for k, vb := range b.Cells {
		if _, ok := a.Cells[k]; !ok {
			out.Cells[k] = ex.mergeWithZero(c, vb, false)
		}
	}
	for k, ha := range a.Heap {
		hb, ok := b.Heap[k]
		if !ok {
			hb = ex.initHeap(k, ha.Sort)
		}
		out.Heap[k] = ts.Ite(c, ha, hb)
	}
	for k, hb := range b.Heap {
		if _, ok := a.Heap[k]; !ok {
			out.Heap[k] = ts.Ite(c, ex.initHeap(k, hb.Sort), hb)
		}
	}
	// defers: union by site
	idx := map[*ssa.Defer]*DeferEntry{}
	var order []*ssa.Defer
	for _, d := range a.Defers {
		idx[d.Site] = d
		order = append(order, d.Site)
	}
	merged := map[*ssa.Defer]*DeferEntry{}
	for _, d := range b.Defers {
		if da, ok := idx[d.Site]; ok {
			ne := &DeferEntry{Site: d.Site, Frame: d.Frame, Armed: ts.Ite(c, da.Armed, d.Armed), Seq: da.Seq}
			ne.Fn = ex.mergeValues(c, da.Fn, d.Fn)
			for i := range d.Args {
				ne.Args = append(ne.Args, ex.mergeValues(c, da.Args[i], d.Args[i]))
			}
			merged[d.Site] = ne
		} else {
			ne := *d
			ne.Armed = ts.And(ts.Not(c), d.Armed)
			merged[d.Site] = &ne
			order = append(order, d.Site)
		}
	}
	for _, site := range order {
		if m, ok := merged[site]; ok {
			out.Defers = append(out.Defers, m)
		} else {
			da := *idx[site]
			da.Armed = ts.And(c, da.Armed)
			out.Defers = append(out.Defers, &da)
		}
	}
	// keep arming order stable
	sortDefers(out.Defers)
	return out
}

// mergeWithZero merges a value that exists on one side only with the zero
// value of its sort (vOnTrueSide: the value belongs to the side where c holds).
func (ex *Exec) mergeWithZero(c *Term, v Value, vOnTrueSide bool) Value {
	tv, ok := v.(TV)
	if !ok {
		return v
	}
	zero := ex.tm.zeroSort(tv.T.Sort)
	if vOnTrueSide {
		return TV{ex.ts.Ite(c, tv.T, zero)}
	}
	return TV{ex.ts.Ite(c, zero, tv.T)}
}

func sortDefers(ds []*DeferEntry) {
	for i := 1; i < len(ds); i++ {
		for j := i; j > 0 && ds[j].Seq < ds[j-1].Seq; j-- {
			ds[j], ds[j-1] = ds[j-1], ds[j]
		}
	}
}

// orFactor computes a ∨ b, factoring And(X,l) ∨ And(X,¬l) into And(X).
func (ex *Exec) orFactor(a, b *Term) *Term {
	ts := ex.ts
	la := conj(a)
	lb := conj(b)
	inB := map[int]bool{}
	for _, x := range lb {
		inB[x.ID] = true
	}
	inA := map[int]bool{}
	for _, x := range la {
		inA[x.ID] = true
	}
	var common, onlyA, onlyB []*Term
	for _, x := range la {
		if inB[x.ID] {
			common = append(common, x)
		} else {
			onlyA = append(onlyA, x)
		}
	}
	for _, x := range lb {
		if !inA[x.ID] {
			onlyB = append(onlyB, x)
		}
	}
	if len(onlyA) == 0 || len(onlyB) == 0 {
		// one subsumes the other
		return ts.And(common...)
	}
	ra := ts.And(onlyA...)
	rb := ts.And(onlyB...)
	if ts.Not(ra) == rb || ts.Not(rb) == ra {
		return ts.And(common...)
	}
	var rest *Term
	if len(onlyA) == 1 && len(onlyB) == 1 {
		rest = ts.Or(ra, rb)
	} else {
		rest = ex.orFactorInner(onlyA, onlyB)
	}
	return ts.And(append(common, rest)...)
}

func (ex *Exec) orFactorInner(a, b []*Term) *Term {
	return ex.ts.Or(ex.ts.And(a...), ex.ts.And(b...))
}

func conj(t *Term) []*Term {
	if t.Op == "and" {
		return t.Args
	}
	if t.IsTrue() {
		return nil
	}
	return []*Term{t}
}
